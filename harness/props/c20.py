"""C20 - `ls` reports the header values stored in the image for samples and programs.

Correspondence: the extracted model (coq/Info.v: record layouts, sample / program / keygroup
decoding, keygroup chain walk, item tree, print_tree, unrender) against the real
implementation - the text printed by `ls <image> <item>` on generated AKAI images and
cue/bin pairs, the real construct parsers on (mutated) byte records, InfoTree.print_tree on
random item trees.
Oracle (independent of the model, from the property text): the stdout of `ls` is read back
into (key path, value) pairs by this file's own reader and compared with the values the
independent writers stored (harness/akai_writer.py, harness/akai_program_writer.py).

TODO (Roland): the S-7xx image writer is being written under C02; the image-level Roland
sample listing is not checked here yet.  The 48-byte sample parameter record IS checked at
function level (model decode_roland_param vs SampleParamEntryStruct.parse + oracle)."""
import random
import struct

import akai_program_writer as PW
import akai_writer as AW
import framework as F
import model as M
import runner as R

RULE = ("AKAI images whose sample headers (every field incl. 8 loop entries) and program files (72-byte header, 1..6 keygroups at "
        "shuffled addresses with gaps linked by next-keygroup words, 0..4 non-empty zones per keygroup, every field random in range, "
        "boundary biased) are listed item by item through `ls`; cue/bin pairs listed track by track; byte records (valid, mutated, "
        "truncated) through the real construct parsers; random item trees (long values, > 300 rows) through InfoTree. "
        "Non-trivial = listing with a nested table / mutated record that still parses / tree with nesting; distinct = distinct input bytes")

CENTS_TABLE = [str(PW.cents_value(x)) for x in range(-128, 128)]


# ------------------------------------------------------------------ reading a listing back
def read_listing(out: str):
    """-> (pairs, capped).  Independent reader of print_tree's text: two header lines, then
    one row per line `<2 blanks per level><key>:[ <value>]`."""
    lines = out.split("\n")
    pairs, stack, capped = [], [], False
    for ln in lines[2:]:
        if ln.startswith("(...) exceeded"):
            capped = True
            continue
        if ":" not in ln:
            continue
        ind = len(ln) - len(ln.lstrip(" "))
        body = ln[ind:]
        key, rest = body.split(":", 1)
        val = rest[1:] if rest else None
        depth = ind // 2
        stack = stack[:depth] + [key]
        pairs.append((tuple(stack), val))
    return pairs, capped


def flatten_items(it, path=(), prev=""):
    """(key path, value) pairs of an itemize() result, keyed the way print_tree keys them."""
    out = []
    if isinstance(it, str):
        return out
    if isinstance(it, dict):
        kv = list(it.items())
    else:
        kv = [("%s[%d]" % (prev, i), v) for i, v in enumerate(it)]
    for k, v in kv:
        if isinstance(v, str):
            out.append((path + (k,), v))
        elif len(v) == 0:
            out.append((path + (k,), "None"))
        else:
            out.append((path + (k,), None))
            out += flatten_items(v, path + (k,), k)
    return out


def model_pairs(v):
    """model kv list -> [(path tuple of str, value|None)]"""
    return [(tuple("".join(map(chr, k)) for k in p), ("".join(map(chr, o[1])) if o[0] == 1 else None)) for p, o in v]


def enc_item(it):
    if isinstance(it, str):
        return [0, it]
    if isinstance(it, dict):
        return [1, [[k, enc_item(v)] for k, v in it.items()]]
    return [2, [enc_item(v) for v in it]]


def text_of(lines):
    return "".join("".join(map(chr, l)) + "\n" for l in lines) + "\n"


# ------------------------------------------------------------------ generators
def rand_name(rng, lo=1):
    n = rng.randint(lo, 12)
    s = "".join(rng.choice(AW.AKAI_ALPHABET) for _ in range(n)).rstrip(" ")
    return s if len(s) >= lo else "Q" * lo


def pick(rng, lo, hi, extra=()):
    r = rng.random()
    if r < 0.1:
        return lo
    if r < 0.2:
        return hi
    if r < 0.3 and extra:
        return rng.choice(extra)
    return rng.randint(lo, hi)


def gen_sample(rng, fname):
    n_words = rng.choice([0, 1, 8, 40, 200])
    start = rng.randint(0, n_words)
    end = rng.randint(start, n_words)
    loops = []
    for _ in range(8):
        dur = rng.choice([0, 0, 1, 5, 300, 9998, 9999, 10000, 65535, rng.randint(0, 65535)])
        at = pick(rng, 0, 2 ** 32 - 1, (0, 1, 2, 100, 65536))
        coarse = rng.choice([0, 1, at, max(0, at - 1), max(0, at - 2), at + 1, rng.randint(0, 2 ** 32 - 1), rng.randint(0, 300)]) % 2 ** 32
        loops.append(AW.Loop(at, pick(rng, 0, 65535), coarse, dur))
    if rng.random() < 0.15:
        loops = loops[:rng.randint(0, 7)]          # remaining entries stored as zeros
    s = AW.SampleFile(
        name=fname, pcm=struct.pack("<%dh" % n_words, *[(7 * i) % 30000 for i in range(n_words)]),
        start=start, end=end, rate=rng.choice([0, 0, 1, 22050, 44100, 48000, 65535, rng.randint(0, 65535)]),
        type_byte=rng.choice([0xF3, 0x73]), header_id=rng.choice([1, 3]), note=pick(rng, 0, 255, (20, 21, 24, 60)),
        loop_type=rng.choice([0, 1, 2, 2, 3, 4]), cents=pick(rng, -128, 127, (0, 0, 1, -1)), semi=pick(rng, -128, 127, (0,)),
        sample_name=rng.choice([rand_name(rng, 0), rand_name(rng), " " + rand_name(rng)[:10], ""]), loops=loops)
    return s


def expected_sample(s: AW.SampleFile):
    """What the property says the listing states, as {path: text}."""
    e = {}
    e[("file_name",)] = AW.displayed_name(s.name)
    e[("sample_name",)] = AW.displayed_name(s.sample_name)
    e[("sample_type",)] = PW.ENUMS["sample_type"][s.header_id]
    e[("sample_rate",)] = str(44100 if s.rate == 0 else s.rate)
    e[("samples_cnt",)] = str(s.n_words)
    e[("start_sample",)] = str(s.start)
    e[("end_sample",)] = str(s.n_words if s.end is None else s.end)
    e[("pitch_semi",)] = str(s.semi)
    e[("pitch_cents",)] = str(PW.cents_value(s.cents))
    e[("note_pitch",)] = PW.note_text(s.note)
    e[("loop_type",)] = PW.ENUMS["sample_loop"][s.loop_type]
    active = [l for l in s.loops if l.duration > 0] if s.loop_type != 2 else []
    if not active:
        e[("loop_entries",)] = "None"
    for j, l in enumerate(active):
        p = ("loop_entries", "loop_entries[%d]" % j)
        e[p + ("loop_end",)] = str(l.at)
        e[p + ("loop_duration",)] = str(l.duration)
    e["#loops"] = len(active)
    return e


def expected_program(header, keygroups):
    e = {}
    for n, k in PW.PROGRAM_HEADER_FIELDS:
        if k.startswith("pad") or n == "first_keygroup_address":
            continue
        t = PW.shown(k, header[n])
        if n.startswith("key_temperaments["):
            e[("key_temperaments", n)] = t
        else:
            e[(n,)] = t
    if not keygroups:
        e[("keygroups",)] = "None"
    aux = {}
    for ki, kg in enumerate(keygroups):
        p = ("keygroups", "keygroups[%d]" % ki)
        for n, k in PW.KEYGROUP_HEAD_FIELDS + PW.KEYGROUP_TAIL_FIELDS_A + PW.KEYGROUP_TAIL_FIELDS_B:
            if k.startswith("pad") or n in ("next_keygroup_address", "num_velocity_zones"):
                continue
            e[p + (n,)] = PW.shown(k, kg[n])
        act = [z for z in kg["zones"] if PW.shown("name", z["sample_name"]) != ""]
        if not act:
            e[p + ("velocity_zones",)] = "None"
        for j, z in enumerate(act):
            q = p + ("velocity_zones", "velocity_zones[%d]" % j)
            for n, k in PW.ZONE_FIELDS:
                if not k.startswith("pad"):
                    e[q + (n,)] = PW.shown(k, z[n])
            aux[q + ("enable_key_tracking",)] = PW.shown("bool", z["enable_key_tracking"])
            aux[q + ("aux_out_offset",)] = PW.shown("u8", z["aux_out_offset"])
            aux[q + ("velocity_to_sample_start",)] = PW.shown("s16", z["velocity_to_sample_start"])
        e[("#zones", ki)] = len(act)
    return e, aux


def zone_gap(keygroups):
    """an empty zone slot stored before a non-empty one (per-zone arrays then shift)"""
    for kg in keygroups:
        seen_empty = False
        for z in kg["zones"]:
            if PW.shown("name", z["sample_name"]) == "":
                seen_empty = True
            elif seen_empty:
                return True
    return False


def check_expected(ctx, what, case, printed, capped, exp):
    got = {}
    for p, v in printed:
        got.setdefault(p, v)
    bad = []
    for p, v in exp.items():
        if not isinstance(p, tuple) or isinstance(p[0], str) and p[0].startswith("#"):
            continue
        if p not in got:
            if not capped:
                bad.append((p, v, "<missing>"))
        elif got[p] != v:
            bad.append((p, v, got[p]))
    return ctx.require(what, case, not bad, {"mismatch": bad[:8], "capped": capped})


# ------------------------------------------------------------------ image level: AKAI
def w_akai_images(pid, tier, seed, job):
    ctx = F.Ctx(pid, tier, seed)
    rng = random.Random(job)
    n_img = 2 if tier == "quick" else 6
    for _ in range(n_img):
        files, meta = [], []
        for i in range(rng.randint(2, 4)):
            nm = "S%d%s" % (i, rng.choice(["", "A", "X9"]))
            s = gen_sample(rng, nm)
            files.append(s)
            meta.append(("sample", nm, s, None))
        for i in range(rng.randint(2, 4)):
            nm = "P%d%s" % (i, rng.choice(["", "B", "Y7"]))
            nk = rng.choice([1, 1, 2, 2, 3, 4, 6]) if rng.random() < 0.93 else 0
            shape = rng.choice(["ok", "ok", "ok", "ok", "ok", "truncated", "badname", "first0", "next0"])
            masks = None
            if rng.random() < 0.35:
                masks = [rng.choice([[True] * 4, [False] * 4, [True, True, False, False], [True, False, False, False],
                                    [True, False, True, False], [False, False, False, True]]) for _ in range(nk)]   # the last two: D12 shape
            h, kgs, addrs = PW.random_program(rng, nk, rng.choice(["random", "random", "sequential"]), masks)
            if shape == "first0" and nk:
                # stored first address 0: keygroups are read right after the header
                h["first_keygroup_address"] = 0
                addrs = [PW.PROGRAM_HEADER_SIZE + PW.KEYGROUP_SIZE * k for k in range(nk)]
                for k, kg in enumerate(kgs):
                    kg["next_keygroup_address"] = addrs[k + 1] if k + 1 < nk else 0
            if shape == "next0" and nk >= 2:
                # a stored next address 0: the following keygroup is the one stored right behind
                addrs = [150 + PW.KEYGROUP_SIZE * k for k in range(nk)]
                h["first_keygroup_address"] = 150
                for k, kg in enumerate(kgs):
                    kg["next_keygroup_address"] = 0
            body = PW.program_file_bytes(h, kgs, addrs, rng.choice([0, 0x0A, 0xFF, 0x33]))
            wellformed = True
            if shape == "truncated" and nk:
                body = body[:max(addrs) + rng.randint(0, PW.KEYGROUP_SIZE - 1)]
                wellformed = False
            if shape == "badname" and nk:
                b = bytearray(body)
                b[addrs[rng.randrange(nk)] + 34 + 24 * rng.randrange(4) + rng.randrange(12)] = rng.choice([41, 99, 255])
                body = bytes(b)
                wellformed = False
            tb = rng.choice([0xF0, 0x70])
            files.append(AW.SampleFile(name=nm, type_byte=tb, raw_body=body))
            meta.append(("program", nm, (h, kgs, addrs, wellformed, shape), tb))
        img = AW.image_bytes([AW.Partition([AW.Volume("VOL1", files)], size_sectors=64)])
        calls = []
        for kind, nm, obj, tb in meta:
            if kind == "sample":
                calls.append(("ls_sample", [CENTS_TABLE, nm, nm, list(obj.body())]))
            else:
                calls.append(("ls_program", [CENTS_TABLE, nm, nm, "S3000 Program" if tb == 0xF0 else "S1000 Program", list(files[[m[1] for m in meta].index(nm)].body())]))
        mres = M.call_mixed(calls)
        outs = []
        with R.TempImage(img) as path:
            for kind, nm, obj, tb in meta:
                outs.append(R.ls(path, "A/VOL1/" + nm))
            # the same listings asked of ONE opened image, repeatedly and after an export: they state the stored values every time
            import contextlib
            import io as _io
            import shutil
            from smpl_extract.actions import determine_image_type, ls_action, export_samples_to_wav
            image = determine_image_type(path)
            again = {}
            for rnd in range(3):
                for kind, nm, obj, tb in meta:
                    buf = _io.StringIO()
                    with contextlib.redirect_stdout(buf):
                        rr = M.impl_res(ls_action, image, "A/VOL1/" + nm)
                    again.setdefault(nm, []).append((rr[0], buf.getvalue()))
                if rnd == 1:
                    dest = R.scratch_dir("c20")
                    try:
                        with contextlib.redirect_stdout(_io.StringIO()):
                            M.impl_res(export_samples_to_wav, image, dest)
                    finally:
                        shutil.rmtree(dest, ignore_errors=True)
            R.close_image(image)
        for (kind, nm, obj, tb), r in zip(meta, outs):
            if r.exc is None:
                same = [a == ("ok", r.out) for a in again[nm]]
                ctx.require("listing of an item repeated on one opened image (before and after an export) prints the same stored values",
                            {"kind": kind, "name": nm, "body": files[[m[1] for m in meta].index(nm)].body()[:200].hex()}, all(same),
                            {"rounds_equal_to_first_listing": same, "first": r.out[:300], "later": [a[1][:300] for a, ok in zip(again[nm], same) if not ok][:1]})
        un = M.call_batch("unrender_text", [r.out for r in outs])
        for (kind, nm, obj, tb), r, mv, uv in zip(meta, outs, mres, un):
            mr = M.res(mv)
            not_found = r.exc is None and r.out.startswith("The entity")
            printed, capped = read_listing(r.out) if not not_found else ([], False)
            if kind == "sample":
                s = obj
                case = {"kind": "sample", "header": s.body()[:140].hex()}
                ctx.count("akai_sample_ls", case["header"], nontrivial=s.loop_type != 2 and any(l.duration for l in s.loops))
                impl = ("ok", r.out) if not not_found and r.exc is None else ("err", r.exc_name or "not-listed")
                ctx.agree("ls_sample_text", case, impl, ("ok", text_of(mr[1])) if mr[0] == "ok" else ("err", "not-listed"))
                exp = expected_sample(s)
                ok = check_expected(ctx, "AKAI sample listing states the stored header values", case, printed, capped, exp)
                nloops = len({p[1] for p, _ in printed if len(p) >= 2 and p[0] == "loop_entries"})
                ctx.require("AKAI sample listing shows exactly the active loops", case, nloops == exp["#loops"] or not ok,
                            {"listed": nloops, "expected": exp["#loops"]})
            else:
                h, kgs, addrs, wellformed, shape = obj
                case = {"kind": "program", "shape": shape, "addresses": addrs, "body": files[[m[1] for m in meta].index(nm)].body().hex(),
                        "zone_gap": zone_gap(kgs)}
                ctx.count("akai_program_ls", case["body"], nontrivial=len(kgs) >= 2)
                impl = ("ok", r.out) if not not_found and r.exc is None else ("err", r.exc_name or "not-listed")
                ctx.agree("ls_program_text", case, impl, ("ok", text_of(mr[1])) if mr[0] == "ok" else ("err", "not-listed"))
                if not wellformed:
                    continue
                exp, aux = expected_program(h, kgs)
                exp[("file_name",)] = nm
                ok = check_expected(ctx, "AKAI program listing states the stored header, keygroup and zone values in stored order",
                                    case, printed, capped, exp)
                if ok and not capped:
                    for ki in range(len(kgs)):
                        nz = len({p[3] for p, _ in printed if len(p) >= 4 and p[1] == "keygroups[%d]" % ki and p[2] == "velocity_zones"})
                        ctx.require("AKAI program listing shows exactly the non-empty zones", dict(case, keygroup=ki),
                                    nz == exp[("#zones", ki)], {"listed": nz, "expected": exp[("#zones", ki)]})
                    nk = len({p[1] for p, _ in printed if len(p) >= 2 and p[0] == "keygroups"})
                    ctx.require("AKAI program listing shows number_of_keygroups keygroups", case, nk == len(kgs), {"listed": nk})
                check_expected(ctx, "per-zone key tracking / aux output / sample start values are those of the zone's own slot",
                               case, printed, capped, aux)
            if not not_found:
                ctx.agree("unrender_text", {"out": r.out}, printed, [pv for pv in model_pairs(uv)])
    return ctx.dump()


# ------------------------------------------------------------------ image level: CDDA
def w_cdda(pid, tier, seed, job):
    ctx = F.Ctx(pid, tier, seed)
    rng = random.Random(job)
    for _ in range(3 if tier == "quick" else 10):
        n = rng.randint(1, 6)
        # first-index positions over every FF value and second / minute carries (00:00:55, 00:01:27, 00:02:08 ... are where a
        # float conversion of MM:SS:FF falls one frame short); bins are all-zero, so they cost nothing
        fr = [rng.choice([0, 0, 1, 2, 55, 75, 102, 158, 229])]
        for _k in range(n - 1):
            fr.append(fr[-1] + rng.choice([1, 1, 2, 3, 5, 55, 74, 75, 76, 102, rng.randint(1, 400)]))
        tracks = []
        for k, f0 in enumerate(fr):
            title = None if rng.random() < 0.3 else "T%d %s" % (k + 1, rng.choice(["x", "song", "Ab-c", "q.r"]))
            if n >= 2 and k < 2 and job % 2 == 0:
                title = ["Intro", "INTRO"][k]            # siblings that differ only in letter case: each listing states its OWN values
            tracks.append({"number": k + 1, "mode": "AUDIO", "title": title, "indices": [(1, f0 // 4500, (f0 // 75) % 60, f0 % 75)]})
        whole = rng.random() < 0.7
        total = (fr[-1] + rng.choice([0, 1, 2, 9])) * 2352 + (0 if whole else rng.choice([1, 3, 4, 7, 2351]))
        text = R.cue_text("d.bin", tracks)
        lines = text.split("\n")[:-1]
        titles = [t["title"] or "Untitled Track %d" % (k + 1) for k, t in enumerate(tracks)]
        margs = [[[[ord(c) for c in l + "\n"] for l in lines], total, k, titles[k]] for k in range(n)]
        mv = M.call_batch("ls_cdda_track", margs)
        with R.TempImage(text.encode("ascii"), "d.cue", {"d.bin": bytes(total)}) as path:
            for k in range(n):
                r = R.ls(path, titles[k])
                case = {"cue": lines, "bin_len": total, "track": k + 1}
                ctx.count("cdda_track_ls", (tuple(lines), total, k), nontrivial=n > 1)
                mr = M.res(mv[k])
                ctx.agree("ls_cdda_text", case, r.out if r.exc is None else r.exc_name,
                          text_of(mr[1][1]) if mr[0] == "ok" and mr[1][0] == 1 else "no-track")
                printed, capped = read_listing(r.out)
                hi = fr[k + 1] * 2352 if k + 1 < n else total
                frames = (hi - fr[k] * 2352) // 4
                if whole or k + 1 < n:
                    exp = {("num_channels",): "2", ("sample_rate",): "44100", ("num_audio_samples",): str(frames), ("title",): titles[k]}
                    check_expected(ctx, "CDDA track listing states channel count, rate and number of sample frames", case, printed, capped, exp)
    return ctx.dump()


# ------------------------------------------------------------------ record level
def impl_pairs_sample(body, name):
    from smpl_extract.akai.sample import SampleAdapter, SampleHeaderConstruct
    el = SampleAdapter(SampleHeaderConstruct).parse(body, _elem_name=name)
    return flatten_items(el.itemize())


def impl_pairs_program(body, name):
    from smpl_extract.akai.program import ProgramParser
    from smpl_extract.akai.data_types import FileType
    el = ProgramParser.parse(body, file_type=FileType.PROGRAM_S3000, _elem_name=name)
    return flatten_items(el.itemize())


def impl_pairs_keygroup(body):
    from smpl_extract.akai.keygroup import KeygroupAdapter, KeygroupConstruct
    from smpl_extract.util.dataclass import itemize_general
    kg = KeygroupAdapter(KeygroupConstruct).parse(body)
    return flatten_items(itemize_general(kg))


def impl_roland(body):
    from smpl_extract.roland.s7xx.sample_entry import SampleParamEntryStruct
    c = SampleParamEntryStruct.parse(body, _index=0)
    out = [int(c.sample_options.sample_mode), int(c.sample_options.sampling_frequency), int(c.loop_mode)]
    for n in ("start_sample", "sustain_loop_start", "sustain_loop_end", "release_loop_start", "release_loop_end"):
        p = getattr(c, n)
        out += [p.fine, p.address]
    return out


def canon(r):
    """implementation result -> comparable with model: errors collapse to ConstructError
    (what makes the item disappear from the listing)"""
    if r[0] == "err":
        return ("err", "ConstructError")
    return r


def mutate(rng, body, span):
    b = bytearray(body)
    for _ in range(rng.choice([0, 1, 1, 2, 4])):
        b[rng.randrange(min(span, len(b)))] = rng.choice([0, 1, 2, 3, 4, 10, 40, 41, 127, 128, 255, rng.randint(0, 255)])
    if rng.random() < 0.1:
        b = b[:rng.randrange(len(b) + 1)]
    return bytes(b)


def w_records(pid, tier, seed, job):
    ctx = F.Ctx(pid, tier, seed)
    rng = random.Random(job)
    n = 40 if tier == "quick" else 250
    # --- sample headers
    bodies = [mutate(rng, gen_sample(rng, "SMP").body(), 140) for _ in range(n)]
    mv = M.call_batch("sample_pairs", [[CENTS_TABLE, "SMP", list(b)] for b in bodies])
    for b, v in zip(bodies, mv):
        iv = canon(M.impl_res(impl_pairs_sample, b, "SMP"))
        mr = M.res(v)
        ctx.count("sample_record", b[:140], nontrivial=iv[0] == "ok")
        ctx.agree("sample_record_fields", {"body": b.hex()}, iv, ("ok", model_pairs(mr[1])) if mr[0] == "ok" else mr[:2])
    # --- programs
    progs = []
    for _ in range(n // 2):
        h, kgs, addrs = PW.random_program(rng, rng.choice([0, 1, 2, 3, 5]), rng.choice(["random", "sequential"]))
        body = PW.program_file_bytes(h, kgs, addrs, rng.choice([0, 0x0A, 0xFF]))
        progs.append(mutate(rng, body, len(body)))
    mv = M.call_batch("program_pairs", [[CENTS_TABLE, "PRG", list(b)] for b in progs])
    for b, v in zip(progs, mv):
        iv = canon(M.impl_res(impl_pairs_program, b, "PRG"))
        mr = M.res(v)
        ctx.count("program_record", b, nontrivial=iv[0] == "ok")
        ctx.agree("program_record_fields", {"body": b.hex()}, iv, ("ok", model_pairs(mr[1])) if mr[0] == "ok" else mr[:2])
    # --- single keygroups, any stored zone count
    kbs = []
    for _ in range(n):
        kg = PW.random_keygroup(rng, [rng.random() < 0.6 for _ in range(4)])
        b = bytearray(PW.keygroup_bytes(kg) + bytes(rng.choice([0, 0, 60, 200])))
        if rng.random() < 0.25:
            b[31] = rng.choice([0, 1, 2, 3, 5, 6, 9])
        kbs.append(mutate(rng, bytes(b), 150))
    mv = M.call_batch("keygroup_pairs", [[CENTS_TABLE, list(b)] for b in kbs])
    for b, v in zip(kbs, mv):
        iv = canon(M.impl_res(impl_pairs_keygroup, b))
        mr = M.res(v)
        ctx.count("keygroup_record", b, nontrivial=iv[0] == "ok")
        ctx.agree("keygroup_record_fields", {"body": b.hex()}, iv, ("ok", model_pairs(mr[1])) if mr[0] == "ok" else mr[:2])
    # --- Roland sample parameter records (function level; image level is a TODO)
    rbs = []
    for _ in range(n):
        pts = [pick(rng, 0, 2 ** 32 - 1, (255, 256, 257, 65535, 65536)) for _ in range(5)]
        opt = (rng.choice([0, 1, 1, 2, 15]) << 4) | rng.choice([0, 1, 2, 3, 4, 5, 5, 6, 15])
        b = bytes(rng.choice(b"ABCxyz 019") for _ in range(16)) + struct.pack("<5I", *pts) + \
            struct.pack("<4B2HBB2x", rng.choice([0, 1, 2, 3, 4, 5, 6, 7, 255]), rng.randint(0, 255), rng.randint(0, 255),
                        rng.randint(0, 255), rng.randint(0, 65535), rng.randint(0, 65535), opt, rng.randint(0, 255))
        assert len(b) == 48
        if rng.random() < 0.08:
            b = b[:rng.randrange(48)]
        rbs.append((b, pts, opt))
    mv = M.call_batch("decode_roland_param", [list(b) for b, _, _ in rbs])
    for (b, pts, opt), v in zip(rbs, mv):
        iv = canon(M.impl_res(impl_roland, b))
        ctx.count("roland_record", b, nontrivial=iv[0] == "ok")
        ctx.agree("roland_record_fields", {"body": b.hex()}, iv, M.res(v)[:2])
        if len(b) == 48 and (opt & 15) <= 5:
            exp = [1 if (opt >> 4) == 1 else 0, [48000, 44100, 24000, 22050, 30000, 15000][opt & 15]]
            ok = iv[0] == "ok" and iv[1][:2] == exp and iv[1][3:] == [x for p in pts for x in (p % 256, p // 256)]
            ctx.require("Roland sample record: mode, frequency, fine = raw mod 256 and coarse = raw div 256 of the five loop points",
                        {"body": b.hex()}, ok, {"got": iv, "points": pts})
    return ctx.dump()


def writer_offsets(fields):
    out, off = [], 0
    for n, k in fields:
        if k == "name":
            out += [(off + i, 1, 0, 0) for i in range(12)]
            off += 12
        elif k.startswith("pad"):
            off += int(k.split(":")[1])
        else:
            w = {"u16": 2, "s16": 2}.get(k, 1)
            out.append((off, w, 1 if k in ("s8", "s16", "cents") else 0, 0))
            off += w
    return out, off


def check_layouts(ctx):
    """field by field (offset, width, signedness, byte order): model layouts vs the tables of the
    independent writers"""
    prog, size = writer_offsets(PW.PROGRAM_HEADER_FIELDS)
    m = [tuple(x) for x in M.call_batch("layout_offsets", [1])[0]]
    ctx.count("layout", "program", nontrivial=True)
    ctx.agree("layout_matches_format", {"layout": "program header"}, (prog, size), (m, 72))
    kg, off = writer_offsets(PW.KEYGROUP_HEAD_FIELDS)
    for i in range(4):
        z, _ = writer_offsets(PW.ZONE_FIELDS)
        kg += [(o + off, w, s, b) for o, w, s, b in z]
        off += 24
    a, n_ = writer_offsets(PW.KEYGROUP_TAIL_FIELDS_A)
    kg += [(o + off, w, s, b) for o, w, s, b in a]
    off += n_
    kg += [(off + i, 1, 0, 0) for i in range(8)] + [(off + 8 + 2 * i, 2, 1, 0) for i in range(4)]
    off += 16
    b_, n_ = writer_offsets(PW.KEYGROUP_TAIL_FIELDS_B)
    kg += [(o + off, w, s, b) for o, w, s, b in b_]
    off += n_
    m = [tuple(x) for x in M.call_batch("layout_offsets", [2])[0]]
    ctx.count("layout", "keygroup", nontrivial=True)
    ctx.agree("layout_matches_format", {"layout": "keygroup"}, (kg, off), (m, 150))
    # sample header: offsets implied by akai_writer.SampleFile.body()
    smp = [(0, 1, 0, 0), (2, 1, 0, 0)] + [(3 + i, 1, 0, 0) for i in range(12)] + [(19, 1, 0, 0), (20, 1, 1, 0), (21, 1, 1, 0),
                                                                                 (26, 4, 0, 0), (30, 4, 0, 0), (34, 4, 0, 0)]
    for i in range(8):
        o = 38 + 12 * i
        smp += [(o, 4, 0, 0), (o + 4, 2, 0, 0), (o + 6, 4, 0, 0), (o + 10, 2, 0, 0)]
    smp.append((138, 2, 0, 0))
    m = [tuple(x) for x in M.call_batch("layout_offsets", [0])[0]]
    ctx.count("layout", "sample", nontrivial=True)
    ctx.agree("layout_matches_format", {"layout": "sample header"}, smp, m)


# ------------------------------------------------------------------ print_tree on random trees
def gen_tree(rng, depth, big):
    def val():
        r = rng.random()
        if r < 0.6:
            return rng.choice(["", "0", "None", "-12", "Loop in release", "a: b", " lead", "x" * rng.choice([5, 60, 77, 78, 79, 80, 81, 120])])
        if depth <= 0:
            return rng.choice(["v", ()])
        return gen_tree(rng, depth - 1, False)
    n = rng.randint(0, 5) if not big else rng.randint(60, 170)
    if rng.random() < 0.5:
        return {rng.choice(["k", "key", "long_key_name_" * rng.choice([1, 3, 6]), "a_b"]) + str(i): val() for i in range(n)}
    return tuple(val() for _ in range(n))


def w_trees(pid, tier, seed, job):
    from smpl_extract.info import InfoTree
    ctx = F.Ctx(pid, tier, seed)
    rng = random.Random(job)
    cases = []
    for i in range(30 if tier == "quick" else 200):
        t = gen_tree(rng, 3, big=(i % 10 == 0))
        if not isinstance(t, dict):
            t = {"root": t, "more": gen_tree(rng, 2, False)}
        hdr = (rng.choice(["NAME", "N" * 90, "A B"]), "  ", rng.choice(["S3000 Sample", "CDDA Track"]))
        cases.append((hdr, t))
    mt = M.call_batch("print_item_text", [[" ".join(h), enc_item(t)] for h, t in cases])
    mp = M.call_batch("item_pairs", [enc_item(t) for h, t in cases])
    texts = []
    for (h, t), v, pv in zip(cases, mt, mp):
        out = InfoTree(h, t).to_string() + "\n"
        texts.append(out)
        rows = out.count("\n")
        ctx.count("print_tree", out, nontrivial=any(not isinstance(x, str) for x in (t.values() if isinstance(t, dict) else t)))
        ctx.agree("print_tree_text", {"tree": repr(t)[:2000]}, out, "".join(map(chr, v)))
        flat = flatten_items(t)
        ctx.agree("item_pairs", {"tree": repr(t)[:2000]}, flat, model_pairs(pv))
        printed, capped = read_listing(out)
        fits = len(flat) <= 299 and all(2 * (len(pth) - 1) + len(pth[-1]) + 1 + (0 if v is None else 1 + len(v)) <= 80 for pth, v in flat)
        if fits:
            ctx.require("a listing under the row cap with rows within 80 columns reads back as every (key path, value) of the tree, in order",
                        {"tree": repr(t)[:2000]}, printed == flat, {"printed": printed[:5], "expected": flat[:5]})
    un = M.call_batch("unrender_text", texts)
    for out, uv in zip(texts, un):
        ctx.agree("unrender_text", {"out": out[:3000]}, read_listing(out)[0], model_pairs(uv))
    return ctx.dump()


def run(ctx):
    check_layouts(ctx)
    base = ctx.seed * 7919
    F.pmap(ctx, w_akai_images, [base + i for i in range(12 if ctx.quick else 48)])
    F.pmap(ctx, w_cdda, [base + 1000 + i for i in range(6 if ctx.quick else 24)])
    F.pmap(ctx, w_records, [base + 2000 + i for i in range(8 if ctx.quick else 32)])
    F.pmap(ctx, w_trees, [base + 3000 + i for i in range(4 if ctx.quick else 16)])
    ctx.note("Roland S-7xx: image-level listing not checked yet (image writer pending under C02); the 48-byte parameter record is checked at function level")
    ctx.note("str(float) of tuning values is not modelled: the model receives the table of the 256 printed texts computed by the harness from the format's line equation")


def replay(ctx, case):
    c = case.get("case", {})
    print("replay: re-running the whole check with the recorded seed; failing case:", {k: (v if len(str(v)) < 200 else str(v)[:200] + "...") for k, v in c.items()} if isinstance(c, dict) else c)
    run(ctx)
    return not ctx.failures
