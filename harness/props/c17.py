"""C17 - cue sheets read the same regardless of case, spacing and unknown lines."""
import itertools
import os
import random

import cuegen as CG
import framework as F
import model as M
import runner as R

RULE = ("canonical sheets of 1-3 tracks (exhaustive: every insertion position x {4 kinds of blank line, 12 unrecognised lines where the property allows them} "
        "x every subset of {keyword case (lower/upper/mixed), line padding, widened inner blanks}) and random sheets of 1-6 tracks with random decoration mixes; "
        "negative stream: no FILE line, non-ASCII bytes (latin-1 and valid UTF-8, BOM), line soup. Non-trivial = decorated differently from canonical; distinct = distinct line list")


def enc_lines(lines):
    return [[ord(c) for c in l] for l in lines]


def impl_parse(lines):
    from smpl_extract.cuesheet import parse_cue_sheet
    return parse_cue_sheet([l + "\n" for l in lines])


def model_meaning(v):
    r = M.res(v)
    if r[0] != "ok":
        return r[:2]
    b, tracks = r[1]
    ts = []
    for t in tracks:
        num, mode, title, idx = t
        ts.append((num, "".join(map(chr, mode)).lower(), None if title[0] == 0 else "".join(map(chr, title[1])), [tuple(i) for i in idx]))
    return ("ok", ("".join(map(chr, b)), ts))


def check(ctx, items):
    """items: list of (lines, expected meaning or None (= only correspondence), tag)"""
    mod = M.call_batch("parse_cue_sheet", [enc_lines([l + "\n" for l in lines]) for lines, _, _ in items])
    for (lines, exp, tag), mv in zip(items, mod):
        iv = M.impl_res(lambda: CG.meaning_of_parsed(impl_parse(lines)))
        ctx.count(tag, tuple(lines), nontrivial=(tag != "canonical"))
        ctx.agree("parse_cue_sheet", {"lines": lines}, iv, model_meaning(mv))
        if exp == "reject":
            ctx.require("text without a FILE line is not a cue sheet", {"lines": lines}, iv == ("err", "BadCueSheet"), iv)
        elif exp is not None:
            ctx.require("decorated cue sheet has the canonical meaning", {"lines": lines, "tag": tag}, iv == ("ok", exp),
                        {"expected": exp, "got": iv})


def w_exh(pid, tier, seed, job):
    ctx = F.Ctx(pid, tier, seed)
    rng = random.Random(job)
    sheet = CG.random_sheet(rng, ntracks=1 + job % 3, audio_only=(job % 2 == 0))
    exp = CG.meaning(sheet)
    items = [(CG.canonical(sheet), exp, "canonical")]
    allowed, nlines = CG.junk_allowed_positions(sheet)
    for case, pad, inner in itertools.product([None, "lower", "upper", "mixed"], [False, True], [False, True]):
        base_rng = random.Random(job * 31 + hash((case, pad, inner)) % 1000)
        items.append((CG.decorate(base_rng, sheet, case, pad, inner), exp, "cosmetic"))
        for p in range(nlines + 1):
            for b in CG.BLANKS:
                lines = CG.decorate(random.Random(1), sheet, case, pad, inner)
                lines.insert(p, b)
                items.append((lines, exp, "blank_line"))
            if p in allowed and (case, pad, inner) == (None, False, False):
                # two decorations in a row: a blank line next to an unrecognised line (either order)
                for b in CG.BLANKS[:2]:
                    for j in CG.UNRECOGNISED[:3]:
                        for pair in ((b, j), (j, b)):
                            lines = CG.decorate(random.Random(1), sheet, case, pad, inner)
                            lines[p:p] = list(pair)
                            items.append((lines, exp, "blank_and_unrecognised_line"))
            if p in allowed and (case, pad, inner) in ((None, False, False), ("mixed", True, True)):
                for j in CG.UNRECOGNISED:
                    lines = CG.decorate(random.Random(1), sheet, case, pad, inner)
                    lines.insert(p, j)
                    items.append((lines, exp, "unrecognised_line"))
    check(ctx, items)
    return ctx.dump()


def w_rand(pid, tier, seed, job):
    ctx = F.Ctx(pid, tier, seed)
    rng = random.Random(job)
    items = []
    for _ in range(60):
        sheet = CG.random_sheet(rng, audio_only=rng.random() < 0.6)
        exp = CG.meaning(sheet)
        lines = CG.decorate(rng, sheet, rng.choice([None, "lower", "upper", "mixed"]), rng.random() < 0.5,
                            rng.random() < 0.5, blanks=rng.randint(0, 4), junk=rng.randint(0, 4))
        items.append((lines, exp, "random_mix"))
        # negative / malformed stream (correspondence + rejection)
        r = rng.random()
        if r < 0.3:
            nofile = [l for l in lines if "FILE" not in l.upper() or "BINARY" not in l.upper()]
            items.append((nofile, "reject", "no_file_line"))
        elif r < 0.6:
            soup = lines[:]
            rng.shuffle(soup)
            items.append((soup, None, "line_soup"))
        else:
            broken = lines[:]
            k = rng.randrange(len(broken))
            broken[k] = rng.choice([broken[k][:max(0, len(broken[k]) - 3)], broken[k].replace('"', '', 1), broken[k].replace(" ", "", 1),
                                    'FILE "x" y" BINARY', 'FILE "a.bin" WAVE', "TRACK 01AUDIO", "INDEX 01 00:00"])
            items.append((broken, None, "corrupted_line"))
    check(ctx, items)
    return ctx.dump()


def image_level(ctx):
    """Same image from decorated sheets; non-ASCII text is not a cue sheet (through the CLI)."""
    rng = ctx.rng
    binb = bytes((i * 7) % 256 for i in range(2352 * 12 + 10))
    for k in range(4 if ctx.quick else 30):
        sheet = CG.random_sheet(rng, ntracks=rng.randint(1, 4))
        sheet["bin"] = "d.bin"
        outs = []
        for variant in range(3):
            lines = CG.canonical(sheet) if variant == 0 else CG.decorate(rng, sheet, rng.choice(["lower", "mixed"]), True, True, blanks=3, junk=3)
            with R.TempImage(("\n".join(lines) + "\n").encode("ascii"), "d.cue", {"d.bin": binb}) as path:
                r = R.ls(path, "")
                outs.append((r.out, r.exc_name))
        # line ends: LF, CRLF, CR-only (text files are read with universal newlines)
        for le in ("\r\n", "\r"):
            with R.TempImage(le.join(CG.canonical(sheet) + [""]).encode("ascii"), "d.cue", {"d.bin": binb}) as path:
                r = R.ls(path, "")
                outs.append((r.out, r.exc_name))
        ctx.count("image_same", (k, tuple(CG.canonical(sheet))))
        ctx.require("image produced from a decorated sheet is the same", {"sheet": CG.canonical(sheet)},
                    all(o == outs[0] for o in outs) and outs[0][1] is None, outs)
    # decorations of any volume: well over 64 KiB of unrecognised / blank lines before FILE, after a TRACK line, before the last INDEX
    for k in range(2 if ctx.quick else 8):
        sheet = CG.random_sheet(rng, ntracks=rng.randint(2, 4))
        sheet["bin"] = "d.bin"
        canon = CG.canonical(sheet)
        outs = []
        with R.TempImage(("\n".join(canon) + "\n").encode("ascii"), "d.cue", {"d.bin": binb}) as path:
            r = R.ls(path, "")
            outs.append((r.out, r.exc_name))
        log = ["REM ripper log line %05d: sector %d read ok, no errors detected" % (i, i * 13) for i in range(1400)] + [""] * 50
        allowed, nlines = CG.junk_allowed_positions(sheet)
        last_index = max(i for i, l in enumerate(canon) if l.startswith("INDEX"))
        for where, pos in (("before FILE", 0), ("after first TRACK line", 2 if 2 in allowed else allowed[1]), ("before the last INDEX", last_index)):
            lines = canon[:pos] + log + canon[pos:]
            assert sum(len(l) + 1 for l in log) > 70000
            with R.TempImage(("\n".join(lines) + "\n").encode("ascii"), "d.cue", {"d.bin": binb}) as path:
                r = R.ls(path, "")
                outs.append((r.out, r.exc_name))
            ctx.count("image_same_big", (k, where, tuple(canon)), nontrivial=True)
            ctx.require("image produced from a decorated sheet is the same (more than 64 KiB of unrecognised and blank lines %s)" % where,
                        {"sheet": canon, "inserted_lines": len(log), "where": where}, outs[-1] == outs[0] and outs[0][1] is None, [o[0][:300] for o in (outs[0], outs[-1])])
    # not ASCII -> not treated as a cue sheet
    sheet = CG.random_sheet(rng, ntracks=2)
    sheet["bin"] = "d.bin"
    base = "\n".join(CG.canonical(sheet)) + "\n"
    pad_rem = "".join("REM padding line %05d ...............................................\n" % i for i in range(1200))
    variants = {
        "high_byte_after_64k": (pad_rem + base).encode("ascii") + b"REM caf\xe9\n",
        "high_byte_after_64k_in_title": base.replace("TRACK 01", pad_rem + "TRACK 01").replace('TRACK 02 AUDIO', 'TRACK 02 AUDIO\nTITLE "na\xefve"').encode("latin-1"),
        "latin1_title": base.replace("TRACK 01", 'REM caf\xe9\nTRACK 01').encode("latin-1"),
        "utf8_title": base.replace("TRACK 01", 'REM café\nTRACK 01').encode("utf-8"),
        "utf8_bom": b"\xef\xbb\xbf" + base.encode("ascii"),
        "utf8_in_title": base.replace('TRACK 02 AUDIO', 'TRACK 02 AUDIO\nTITLE "naïve"').encode("utf-8"),
        "high_byte": base.encode("ascii") + b"\xff\n",
    }
    from smpl_extract.actions import determine_image_type
    mod = M.call_batch("is_ascii_text", [list(v) for v in variants.values()])
    for (name, data), mv in zip(variants.items(), mod):
        with R.TempImage(data, "d.cue", {"d.bin": binb}) as path:
            try:
                img = determine_image_type(path)
                kind = type(img).__name__
                f = getattr(img, "file", None)
                if f:
                    f.close()
            except Exception as e:  # noqa
                kind = "exc:" + type(e).__name__
        ctx.count("non_ascii", name)
        ctx.agree("is_ascii_text", name, kind != "CompactDiskAudioImage", mv == 0)
        ctx.require("non-ASCII text is not treated as a cue sheet", {"variant": name}, kind != "CompactDiskAudioImage", kind)


def run(ctx):
    F.pmap(ctx, w_exh, list(range(ctx.seed * 100, ctx.seed * 100 + (6 if ctx.quick else 30))))
    F.pmap(ctx, w_rand, [ctx.seed * 977 + i for i in range(16 if ctx.quick else 300)])
    image_level(ctx)
    ctx.exhaustive = True


def replay(ctx, case):
    c = case["case"]
    if "lines" in c:
        iv = M.impl_res(lambda: CG.meaning_of_parsed(impl_parse(c["lines"])))
        print("impl:", iv, "\nexpected:", case.get("detail"))
        exp = case.get("detail", {}).get("expected") if isinstance(case.get("detail"), dict) else None
        if exp is not None:
            def norm(x):
                return [norm(y) for y in x] if isinstance(x, (list, tuple)) else x
            return norm(iv) == norm(("ok", exp))
        return iv == ("err", "BadCueSheet")
    sub = F.Ctx(ctx.pid, ctx.tier, ctx.seed)
    image_level(sub)
    return not sub.failures
