"""C04 - every exported file is a structurally valid RIFF/WAVE PCM file.

Correspondence (model coq/Wav.v, extracted):
  build_wav          vs WavSampleBuilder via export_wav() with the transcoder replaced by a list of blocks
                     (every header value, any PCM length), byte for byte, exceptions by class
  export_wav         vs the real export_wav() with real data streams / the real transcoder
  smpl_chunk_data    vs get_smpl_chunk_data over the AKAI semitone x cents bytes (all 65536 pairs)
  normalized_pitch / int_true_div / float_of_int vs Python on corner values (bit exact)
  akai_export, cdda_export : model bytes vs the files the CLI writes for generated AKAI images / cue+bin
  wav_check          : the Coq-side RIFF walker + predicate evaluated on every real file, and on damaged files
                       (bit flips, wrong sizes, truncation, trailing bytes, swapped chunks) against oracle_text

Oracle (from the property text, independent of the model): every reported file is read back with
runner.parse_wav (independent walker) and the stdlib `wave` module and its RIFF size, chunk order,
chunk sizes, fmt fields, frame alignment and smpl size are checked (oracle_wav)."""
import io
import math
from fractions import Fraction
import os
import random
import shutil
import struct
import wave

import akai_writer as AW
import framework as F
import model as M
import runner as R

RULE = ("(a) generalized Sample descriptions: channels {1,2 + corners 0,3,65535,65536,-1} x width {2 + 1,4,8191,8192} x rate {0,1,8000..48000,65535,2^31-1,2^31,2^32-1,2^32,-1,10^12,random} "
        "x midi note (None / 7 degrees x sharp x octave -3..12) x semitone (None,0,+-1,+-12,+-127,-128,random,+-10^6,10^400) x cents (None, ints, AKAI floats, +-0.0, +-1e-20, 99.99999999, nan, +-inf, 1e300, random) "
        "x 0..8 loop regions with corner start/end/play_cnt/duration/type x PCM length {0..5,7,8,4095..4097,random <= 9000} split into random blocks; "
        "(a2) the same headers over real data streams: mono LE/BE, interleaved stereo, split stereo, wrong channel count, no stream, odd lengths; "
        "(b) all 65536 AKAI (semitone, cents) byte pairs through get_smpl_chunk_data, and AKAI images through the CLI: every root-key byte, every semitone byte, every cents byte, random triples, "
        "negative-unity-note triples one per image, loop tables with corner values, image files cut at odd and even offsets inside a mono sample's PCM (around sector boundaries); (c) cue+bin CDDA images whose bin length runs over every residue mod 4. "
        "Non-trivial = the sample carries a smpl chunk, >= 1 frame of PCM or a failing field; distinct = distinct (header, PCM length) / (note, semi, cents, loops)")

LIMB = 1 << 30


# ---------------------------------------------------------------- marshalling
def big(z):
    s = -1 if z < 0 else 1
    z = abs(z)
    limbs = []
    while z:
        limbs.append(z % LIMB)
        z //= LIMB
    return [s] + limbs


def opt(x, f=lambda v: v):
    return [] if x is None else [f(x)]


def pyn(p):
    return [1, float(p)] if isinstance(p, float) else [0, big(p)]


def enc_loop(l):
    return [big(l["start"]), big(l["end"]), l["type"], 1 if l["forever"] else 0, opt(l["play"], big), opt(l["dur"], pyn)]


def enc_desc(d):
    return [big(d["ch"]), big(d["w"]), big(d["rate"]), opt(d["note"], lambda n: [n[0], 1 if n[1] else 0, n[2]]),
            opt(d["semi"], big), opt(d["cents"], pyn), [enc_loop(l) for l in d["loops"]]]


def canon_desc(d):
    def fl(x):
        return x.hex() if isinstance(x, float) else x
    return (d["ch"], d["w"], d["rate"], d["note"], d["semi"], fl(d["cents"]),
            tuple((l["start"], l["end"], l["type"], l["forever"], l["play"], fl(l["dur"])) for l in d["loops"]))


def show_desc(d):
    def fl(x):
        return x.hex() if isinstance(x, float) else (str(x) if isinstance(x, int) and abs(x) > 1 << 62 else x)
    return {"ch": fl(d["ch"]), "w": fl(d["w"]), "rate": fl(d["rate"]), "note": d["note"], "semi": fl(d["semi"]), "cents": fl(d["cents"]),
            "loops": [{k: fl(v) for k, v in l.items()} for l in d["loops"]]}


# ---------------------------------------------------------------- the real implementation
def mk_sample(d, streams):
    from smpl_extract.generalized.sample import Sample, LoopRegion, LoopType
    from smpl_extract.midi import MidiNote, ScaleDegree
    loops = []
    for l in d["loops"]:
        lt = LoopType(l["type"]) if l["type"] in (1, 2, 3) else l["type"]
        loops.append(LoopRegion(start_sample=l["start"], end_sample=l["end"], loop_type=lt,
                                repeat_forever=l["forever"], play_cnt=l["play"], duration=l["dur"]))
    note = None if d["note"] is None else MidiNote(ScaleDegree(d["note"][0]), bool(d["note"][1]), d["note"][2])
    return Sample(name="s", sample_rate=d["rate"], num_channels=d["ch"], data_streams=streams, loop_regions=loops,
                  midi_note=note, pitch_offset_semi=d["semi"], pitch_offset_cents=d["cents"])


def impl_export(d, streams, path, blocks=None):
    """export_wav(sample, path) -> bytes of the file; with blocks: the transcoder is replaced by iter(blocks)"""
    import smpl_extract.generalized.wav as GW
    sample = mk_sample(d, streams)
    old = GW.make_transcoder
    if blocks is not None:
        GW.make_transcoder = lambda ds, enc: iter(blocks)
    try:
        GW.export_wav(sample, path)
    finally:
        GW.make_transcoder = old
    with open(path, "rb") as f:
        return f.read()


def mk_streams(srcs):
    from smpl_extract.data_streams import DataStream, StreamEncoding, Endianess
    return [DataStream(io.BytesIO(s[0]), StreamEncoding(Endianess.BIG if s[3] else Endianess.LITTLE, s[1], s[2])) for s in srcs]


# ---------------------------------------------------------------- oracle, from the property text
def oracle_wav(b, channels=None, rate=None, pcm=None):
    """-> (ok, why).  Structural validity of one file, with the independent walker and with `wave`."""
    w = R.parse_wav(b)
    if not w["ok"]:
        return False, "walker: " + w["why"]
    ids = [c[0] for c in w["chunks"]]
    total = 12 + sum(8 + len(c[1]) for c in w["chunks"])
    if total != len(b):
        return False, "chunk sizes add up to %d, file has %d" % (total, len(b))
    if struct.unpack("<I", b[4:8])[0] != len(b) - 8:
        return False, "riff size"
    if w["audio_format"] != 1 or w["bits"] != 16 or w["block_align"] != 2 * w["channels"] or w["byte_rate"] != w["rate"] * w["block_align"]:
        return False, "fmt fields %r" % ((w["audio_format"], w["channels"], w["rate"], w["byte_rate"], w["block_align"], w["bits"]),)
    if w["channels"] < 1 or len(w["data"]) % (2 * w["channels"]) != 0:
        return False, "data length %d is not whole frames of %d channels" % (len(w["data"]), w["channels"])
    if len(ids) == 3:
        sm = w["chunks"][1][1]
        k = struct.unpack("<I", sm[28:32])[0]
        if len(sm) != 36 + 24 * k:
            return False, "smpl size %d != 36 + 24*%d" % (len(sm), k)
    if channels is not None and w["channels"] != channels:
        return False, "channels %d expected %d" % (w["channels"], channels)
    if rate is not None and w["rate"] != rate:
        return False, "rate %d expected %d" % (w["rate"], rate)
    if pcm is not None and w["data"] != pcm:
        return False, "data chunk differs from the PCM handed over"
    try:
        wf = wave.open(io.BytesIO(b), "rb")
        ok = (wf.getnchannels() == w["channels"] and wf.getsampwidth() == 2 and wf.getframerate() == w["rate"]
              and wf.getnframes() == len(w["data"]) // (2 * w["channels"]) and wf.readframes(wf.getnframes()) == w["data"])
        wf.close()
        if not ok:
            return False, "stdlib wave reads different parameters/frames"
    except (wave.Error, EOFError) as e:
        return False, "stdlib wave: %r" % (e,)
    return True, ""


# ---------------------------------------------------------------- generators
RATES = [0, 1, 8000, 11025, 22050, 32000, 44100, 48000, 65535, (1 << 30), (1 << 30) - 1, (1 << 31) - 1, 1 << 31, (1 << 32) - 1, 1 << 32, -1, 10 ** 12, 96000, 1000000007]
SEMIS = [None, 0, 1, -1, 2, -2, 12, -12, 50, -50, 127, -127, -128, 128, 255, 10 ** 6, -10 ** 6]
CENTS_I = [0, 1, -1, 49, 50, 51, -49, -50, -51, 99, 100, 101, -99, -100, -101, 127, -128, 12345, -12345]
CENTS_F = [0.0, -0.0, 1e-20, -1e-20, 5e-324, -5e-324, 49.99999999999, 99.99999999, 99.999999999999, 99.99999999999999, 100.0, -100.0, 50.0, -50.0, 0.5, -0.5,
           float("nan"), float("inf"), float("-inf"), 1e300, -1e300, 1e16, 2.0 ** 53 + 2, 1e22, 123.456, -123.456, 49.80392156862746, -49.6078431372549]
U32S = [0, 1, 2, 3, 100, 1000, 65535, 65536, (1 << 31) - 1, 1 << 31, (1 << 32) - 1, 1 << 32, -1, 1 << 40]
DURS = [None, 0, 1, 2, 500, 9998, 9999, 65535, 10 ** 400, -3, 0.5, 3.7, 1e308, -1e308, float("nan"), float("inf"), 1e-310, 2.5, 1.5]


def akai_cents(x):
    return 0 if x == 0 else (100 / 255) * (x - (-128)) + (-50)


def gen_loop(rng):
    a = rng.choice(U32S + [rng.randint(0, 100000)] * 6)
    b = rng.choice([a, a + 1, a + 2, a + 44100, a + rng.randint(0, 100000)] + U32S[:6])
    play = rng.choice([None, None, None, 0, 1, 2, 7, (1 << 32) - 1, 1 << 32, -1, rng.randint(0, 1 << 33)])
    return {"start": a, "end": b, "type": rng.choice([1, 1, 2, 3, 0, 7]), "forever": rng.random() < 0.4,
            "play": play, "dur": rng.choice(DURS + [rng.randint(0, 70000), rng.uniform(0, 100)])}


def gen_valid_loop(rng):
    a = rng.choice([0, 1, 2, 100, 65535, 65536, (1 << 31) - 1, (1 << 32) - 2] + [rng.randint(0, 200000)] * 8)
    b = min((1 << 32) - 1, a + rng.choice([0, 1, 2, 441, 44100, rng.randint(0, 100000)]))
    forever = rng.random() < 0.4
    play = rng.choice([None, None, 0, 1, 2, 7, (1 << 32) - 1, rng.randint(0, (1 << 32) - 1)])
    dur = rng.choice([None, 0, 1, 2, 500, 9998, 0.5, 3.7, 2.5, 1.5, rng.randint(0, 9998), rng.uniform(0, 10)])
    return {"start": a, "end": b, "type": rng.choice([1, 1, 2, 3, 0, 7]), "forever": forever, "play": play, "dur": dur}


def gen_desc(rng, exotic=True):
    """exotic=False: every value is one a sampler image can produce or a boundary that still encodes (mostly succeeds);
    exotic=True: any value, including those no field can hold"""
    d = {}
    if not exotic:
        d["ch"] = rng.choice([1, 1, 2, 2, 3])
        d["w"] = 2
        d["rate"] = rng.choice([0, 1, 8000, 11025, 22050, 32000, 44100, 48000, 65535, 96000, (1 << 29) - 1] + [rng.randint(1, 200000)] * 6)
        if rng.random() < 0.15:
            d["note"], d["semi"], d["cents"], d["loops"] = None, None, None, []
            return d
        d["note"] = None if rng.random() < 0.3 else (rng.randint(0, 6), rng.random() < 0.4, rng.choice([1, 2, 3, 4, 5, 8]))
        d["semi"] = rng.choice([None, 0, 0, 1, -1, 12, -12, 50, -50, 127, -128, rng.randint(-128, 127)])
        d["cents"] = rng.choice([None, 0, 0.0, rng.randint(-128, 127), akai_cents(rng.randint(-128, 127)), akai_cents(rng.randint(-128, 127)), rng.uniform(-50, 50)])
        d["loops"] = [gen_valid_loop(rng) for _ in range(rng.choice([0, 0, 1, 1, 2, 3, 8, rng.randint(0, 8)]))]
        return d
    d["ch"] = rng.choice([1, 1, 1, 2, 2, 2] + ([0, 3, 65535, 65536, -1, 32767, 32768] if rng.random() < 0.3 else []))
    d["w"] = rng.choice([2] * 12 + [1, 4, 8191, 8192, 0])
    d["rate"] = rng.choice(RATES + [rng.randint(1, 200000)] * 12 + [rng.randint(0, 1 << 33)])
    d["note"] = None if rng.random() < 0.35 else (rng.randint(0, 6), rng.random() < 0.4, rng.choice([-3, -2, -1, 0, 1, 2, 3, 4, 5, 8, 9, 12]))
    r = rng.random()
    d["semi"] = rng.choice(SEMIS) if r < 0.7 else (rng.randint(-200, 200) if r < 0.97 else rng.choice([10 ** 400, -10 ** 400, 1 << 70]))
    r = rng.random()
    if r < 0.25:
        d["cents"] = None
    elif r < 0.5:
        d["cents"] = rng.choice(CENTS_I + [rng.randint(-300, 300)] * 5)
    elif r < 0.75:
        d["cents"] = rng.choice(CENTS_F)
    elif r < 0.9:
        d["cents"] = akai_cents(rng.randint(-128, 127))
    else:
        d["cents"] = rng.choice([rng.uniform(-200, 200), rng.uniform(-1, 1) * 10 ** rng.randint(-30, 30), 100.0 * rng.randint(-5, 5) - 10.0 ** -rng.randint(8, 16)])
    n = rng.choice([0, 0, 0, 1, 1, 2, 3, 8, rng.randint(0, 8)])
    d["loops"] = [rng.choice([gen_loop, gen_valid_loop])(rng) for _ in range(n)]
    return d


PCM_LENS = [0, 1, 2, 3, 4, 5, 7, 8, 12, 4095, 4096, 4097, 8192]


def gen_pcm(rng):
    n = rng.choice(PCM_LENS + [rng.randint(0, 9000)] * 4 + [rng.randint(0, 64)] * 6)
    return bytes(rng.getrandbits(8) for _ in range(n)) if n < 200 else bytes((i * 37 + 11) & 0xFF for i in range(n))


def split_blocks(rng, pcm):
    blocks, i = [], 0
    while i < len(pcm):
        k = rng.choice([1, 2, 3, 4, 4096, rng.randint(1, 5000)])
        blocks.append(pcm[i:i + k])
        i += k
    return blocks


def canon(r):
    return ("ok", bytes(r[1])) if r[0] == "ok" else tuple(r[:2])


# ---------------------------------------------------------------- (a) generalized samples
def w_direct(pid, tier, seed, job):
    ctx = F.Ctx(pid, tier, seed)
    rng = random.Random(job)
    n = 260 if tier == "quick" else 2500
    tmp = R.scratch_dir("c04")
    path = os.path.join(tmp, "x.wav")
    try:
        cases = []
        for k in range(n):
            d = gen_desc(rng, exotic=(k % 3 == 0))
            pcm = gen_pcm(rng)
            cases.append((d, pcm, split_blocks(rng, pcm)))
        mod = M.call_batch("build_wav", [[enc_desc(d), pcm] for d, pcm, _ in cases])
        chk_in, chk_case = [], []
        for (d, pcm, blocks), mv in zip(cases, mod):
            from smpl_extract.data_streams import DataStream, StreamEncoding, Endianess
            streams = [DataStream(io.BytesIO(b""), StreamEncoding(Endianess.LITTLE, d["w"], max(1, min(d["ch"], 8))))]
            iv = M.impl_res(impl_export, d, streams, path, blocks)
            case = {"desc": show_desc(d), "pcm_len": len(pcm)}
            smpl = not (d["note"] is None and d["semi"] is None and d["cents"] is None and not d["loops"])
            ctx.count("build_wav", (canon_desc(d), len(pcm)), nontrivial=smpl or len(pcm) > 0 or iv[0] != "ok")
            ctx.agree("build_wav", case, canon(iv), canon(M.res(mv)))
            if iv[0] == "ok":
                chk_in.append(iv[1])
                chk_case.append((case, d, pcm))
        # property oracle on the real files that are in the export domain (16 bit, >= 1 channel, whole frames)
        chk = M.call_batch("wav_check", chk_in)
        for (case, d, pcm), b, cv in zip(chk_case, chk_in, chk):
            in_domain = d["w"] == 2 and d["ch"] >= 1 and len(pcm) % (2 * d["ch"]) == 0
            ok, why = oracle_wav(b, d["ch"], d["rate"], pcm) if in_domain else (None, "")
            if in_domain:
                ctx.require("file built by export_wav is a well-formed RIFF/WAVE PCM file", case, ok, why)
                ctx.agree("wav_check", case, True, cv == 1)
            else:
                # outside the domain the Coq predicate and the Python walker must still agree with each other
                ctx.agree("wav_check", case, oracle_wav(b)[0], cv == 1)
    finally:
        shutil.rmtree(tmp, ignore_errors=True)
    return ctx.dump()


def gen_streams(rng, d):
    """-> list of (bytes, width, chans, big) and sets d['ch'], d['w']"""
    kind = rng.choice(["mono", "mono", "monoBE", "stereo_il", "stereo_il", "split", "split", "mismatch", "none", "mono_w1", "mono_w4"])
    w = 2
    nfr = rng.choice([0, 1, 2, 3, 5, 100, 1023, 1024, 1025, 2048, 2049, rng.randint(0, 3000)])
    part = rng.choice([0, 0, 1, 2, 3])

    def data(tag, n):
        return bytes(((tag * 83 + k * 7 + 1) % 255) + 1 for k in range(n))
    if kind == "none":
        d["ch"] = rng.choice([1, 2])
        return []
    if kind in ("mono", "monoBE", "mono_w1", "mono_w4"):
        w = {"mono_w1": 1, "mono_w4": 4}.get(kind, 2)
        d["ch"] = 1
        return [(data(1, nfr * w + min(part, w - 1)), w, 1, kind == "monoBE")]
    if kind == "stereo_il":
        d["ch"] = 2
        return [(data(2, nfr * 4 + part), 2, 2, False)]
    if kind == "split":
        d["ch"] = 2
        be = rng.random() < 0.3
        return [(data(3, nfr * 2 + min(part, 1)), 2, 1, be), (data(4, nfr * 2 + rng.choice([0, 1])), 2, 1, be)]
    d["ch"] = rng.choice([2, 3])
    return [(data(5, nfr * 2), 2, 1, False)] if d["ch"] == 2 else [(data(5, nfr * 4), 2, 2, False)]


def w_streams(pid, tier, seed, job):
    ctx = F.Ctx(pid, tier, seed)
    rng = random.Random(job)
    n = 120 if tier == "quick" else 1200
    tmp = R.scratch_dir("c04")
    path = os.path.join(tmp, "x.wav")
    try:
        cases = []
        for k in range(n):
            d = gen_desc(rng, exotic=False)
            srcs = gen_streams(rng, d)
            if srcs:
                d["w"] = srcs[0][1]
            cases.append((d, srcs))
        mod = M.call_batch("export_wav", [[4096, enc_desc(d), [[s[0], s[1], s[2], 1 if s[3] else 0] for s in srcs]] for d, srcs in cases])
        good = []
        for (d, srcs), mv in zip(cases, mod):
            iv = M.impl_res(impl_export, d, mk_streams(srcs), path)
            case = {"desc": show_desc(d), "streams": [(len(s[0]), s[1], s[2], s[3]) for s in srcs]}
            ctx.count("export_wav", (canon_desc(d), tuple((len(s[0]), s[1], s[2], s[3]) for s in srcs)), nontrivial=bool(srcs))
            ctx.agree("export_wav", case, canon(iv), canon(M.res(mv)))
            if iv[0] == "ok":
                good.append((case, d, iv[1]))
        chk = M.call_batch("wav_check", [g[2] for g in good])
        for (case, d, b), cv in zip(good, chk):
            if d["w"] == 2:
                ok, why = oracle_wav(b, d["ch"], d["rate"])
                ctx.require("file written by export_wav over real data streams is a well-formed RIFF/WAVE PCM file", case, ok, why)
                ctx.agree("wav_check", case, True, cv == 1)
    finally:
        shutil.rmtree(tmp, ignore_errors=True)
    return ctx.dump()


# ---------------------------------------------------------------- (b) AKAI semitone x cents bytes, Python side
def w_pitch(pid, tier, seed, job):
    """all 256 cents bytes for the given semitone bytes; root key drawn per case"""
    ctx = F.Ctx(pid, tier, seed)
    from smpl_extract.generalized.wav import get_smpl_chunk_data
    from smpl_extract.midi import MidiNote
    rng = random.Random(seed * 7919 + job[0])
    cases = []
    for semi in job:
        for cb in range(-128, 128):
            notes = [rng.randint(0, 255)] if tier == "quick" else [0, 21, 64, 255, rng.randint(0, 255)]
            for nb in notes:
                cases.append((nb, semi, cb))
    descs = []
    for nb, semi, cb in cases:
        n = MidiNote.from_akai_byte(nb)
        descs.append({"ch": 1, "w": 2, "rate": 44100, "note": (int(n.scale_degree), n.is_sharp, n.octave), "semi": semi, "cents": akai_cents(cb), "loops": []})
    mod = M.call_batch("smpl_chunk_data", [enc_desc(d) for d in descs])
    for (nb, semi, cb), d, mv in zip(cases, descs, mod):
        def f():
            c = get_smpl_chunk_data(mk_sample(d, []))
            return [c["sample_period"], c["midi_note"].to_midi_byte(), c["pitch_fraction"], []]
        iv = M.impl_res(f)
        ctx.count("akai_pitch_bytes", (nb, semi, cb))
        ctx.agree("smpl_chunk_data", {"note": nb, "semi": semi, "cents": cb}, iv, M.res(mv)[:2])
        if iv[0] == "ok":
            # text: unity note = root key + whole semitones of (50*semi + cents)/100 ; fraction below one semitone
            comb = 50 * semi + akai_cents(cb)
            ctx.require("tuned unity note/fraction are the floor/remainder of the combined tuning", {"note": nb, "semi": semi, "cents": cb},
                        iv[1][1] == nb + math.floor(Fraction(comb) / 100) and 0 <= iv[1][2] <= 1 << 32, iv[1])
    return ctx.dump()


# ---------------------------------------------------------------- (b) AKAI images through the CLI
def note_tuple(nb):
    n = nb - 21
    deg, sharp = [(0, False), (0, True), (1, False), (2, False), (2, True), (3, False), (3, True), (4, False), (5, False), (5, True), (6, False), (6, True)][n % 12]
    return (deg, sharp, n // 12)


def akai_expected_desc(s):
    """generalized description of one AKAI sample header, from the format (independent of /repo)"""
    rate = s["rate"] or 44100
    loops = []
    if s["loop_type"] != 2:
        for (at, coarse, dur) in s["loops"]:
            if dur <= 0:
                continue
            start, end = max(0, at - 1 - coarse), at
            forever = dur >= 9999
            play = None
            if not forever:
                tot = (end - start) / rate
                if tot == 0:
                    continue
                play = round(dur / tot)
            loops.append({"start": start, "end": end, "type": 1, "forever": forever, "play": play, "dur": dur})
    return {"ch": 1, "w": 2, "rate": rate, "note": note_tuple(s["note"]), "semi": s["semi"], "cents": akai_cents(s["cents"]), "loops": loops}


def expect_fail(s):
    return s["note"] + math.floor(Fraction(50 * s["semi"] + akai_cents(s["cents"])) / 100) < 0


def run_akai_image(ctx, samples, what):
    """export one image; returns the samples not reached because the export aborted"""
    files = []
    for i, s in enumerate(samples):
        lps = [AW.Loop(at=a, fine=0, coarse=c, duration=du) for (a, c, du) in s["loops"]]
        files.append(AW.SampleFile(name="S%04d" % i, pcm=s["pcm"], rate=s["rate"], note=s["note"], semi=s["semi"], cents=s["cents"],
                                   loop_type=s["loop_type"], loops=lps))
    sectors = 8 + len(files) + 2
    img = AW.image_bytes([AW.Partition([AW.Volume("VOL", files)], size_sectors=sectors)])
    with R.TempImage(img) as path:
        r, tree, reported = R.export(path)
    by_name = {}
    for rel in reported:
        by_name[os.path.basename(rel)[:-4]] = rel
    failed = {}
    for ln in r.out.splitlines():
        if ln.startswith("Failed to export ") and "(" in ln:
            rel = ln[len("Failed to export "):ln.index(" (")]
            failed[os.path.basename(rel)[:-4]] = _cls_name(ln[ln.index(" (") + 2:].split(":")[0].rstrip(")"))
    descs = [akai_expected_desc(s) for s in samples]
    mod = M.call_batch("build_wav", [[enc_desc(d), s["pcm"]] for d, s in zip(descs, samples)])
    ctx.require("every reported path is a written file, reported once", {"what": what}, len(set(reported)) == len(reported) and all(p in tree for p in reported),
                {"reported": reported[:5], "files": sorted(tree)[:5]})
    good = []
    rest = []
    for i, (s, d, mv) in enumerate(zip(samples, descs, mod)):
        key = {"note": s["note"], "semi": s["semi"], "cents": s["cents"], "rate": s["rate"], "loop_type": s["loop_type"], "loops": s["loops"], "words": len(s["pcm"]) // 2}
        name = "S%04d" % i
        mres = canon(M.res(mv))
        if name in by_name:
            b = tree.get(by_name[name], b"")
            ctx.count("akai_export", repr(key), nontrivial=True)
            ok, why = oracle_wav(b, 1, d["rate"], s["pcm"])
            ctx.require("reported file is a well-formed RIFF/WAVE PCM file (AKAI sample through export)", key, ok, why)
            ctx.agree("akai_export", key, ("ok", b), mres)
            good.append((key, b))
        else:
            # not reported: since fix d81c645 the export goes on and prints "Failed to export <path> (<Class>: ...)";
            # the model must predict a failing build of the same class
            ctx.count("akai_export_fails", repr(key), nontrivial=True)
            fcls = failed.get(name)
            ctx.agree("akai_export", key, ("err", fcls), mres)
            ctx.require("a sample that is not reported is one whose header cannot be encoded (unity note < 0)", key, expect_fail(s) and fcls is not None,
                        {"failed_line_class": fcls, "expected_to_fail": expect_fail(s)})
            ctx.require("a sample that failed to export leaves no file behind", key, not any(os.path.basename(p_)[:-4] == name for p_ in tree), sorted(tree)[:5])
    ctx.require("export finishes without an exception", {"what": what}, r.exc is None, r.exc_name)
    chk = M.call_batch("wav_check", [b for _, b in good])
    for (key, b), cv in zip(good, chk):
        ctx.agree("wav_check", key, True, cv == 1)
    return rest


def _cls_name(n):
    """exception class NAME (as printed) -> the model's class name (via the MRO)"""
    import builtins
    import construct.core as CC
    c = getattr(CC, n, None) or getattr(builtins, n, None)
    if c is None:
        return n
    names = set(M.EXN.values())
    for k in c.__mro__:
        if k.__name__ in names:
            return k.__name__
    return n


def _cls(e):
    if e is None:
        return "no exception"
    names = set(M.EXN.values())
    for c in type(e).__mro__:
        if c.__name__ in names:
            return c.__name__
    return type(e).__name__


def mk_akai(rng, note, semi, cents, loops=False):
    nw = rng.choice([0, 1, 2, 3, 8, 50, rng.randint(0, 400)])
    pcm = struct.pack("<%dh" % nw, *[((k * 37 + note) % 2001) - 1000 for k in range(nw)])
    s = {"note": note, "semi": semi, "cents": cents, "rate": rng.choice([44100, 44100, 22050, 0, 1, 65535, rng.randint(1, 65535)]),
         "loop_type": 2, "loops": [], "pcm": pcm}
    if loops:
        s["loop_type"] = rng.choice([0, 1, 3, 4, 2])
        for _ in range(rng.choice([1, 2, 3, 8])):
            at = rng.choice([0, 1, 2, 100, nw, (1 << 32) - 1, rng.randint(0, 5000)])
            s["loops"].append((at, rng.choice([0, 1, 50, at, (1 << 32) - 1, rng.randint(0, 5000)]), rng.choice([0, 1, 5, 500, 9998, 9999, 65535, rng.randint(0, 65535)])))
    return s


def w_akai(pid, tier, seed, job):
    ctx = F.Ctx(pid, tier, seed)
    kind, samples = job
    todo = samples
    rounds = 0
    while todo and rounds < 400:
        rounds += 1
        todo = run_akai_image(ctx, todo, kind)
    return ctx.dump()


def akai_jobs(ctx):
    rng = ctx.rng
    good, bad = [], []

    def add(n, s, c, loops=False):
        smp = mk_akai(rng, n, s, c, loops)
        (bad if expect_fail(smp) else good).append(smp)
    for n in range(256):
        add(n, 0, 0)
        add(n, rng.randint(-128, 127), rng.randint(-128, 127))
    for s in range(-128, 128):
        add(rng.choice([60, 64, 100, 127, 255]), s, rng.randint(-128, 127))
        add(64 + rng.randint(0, 2), s, 0)
    for c in range(-128, 128):
        add(rng.choice([60, 70, 127]), rng.choice([0, 1, -1, 2, -2]), c)
    for _ in range(400 if ctx.quick else 20000):
        add(rng.randint(0, 255), rng.randint(-128, 127), rng.randint(-128, 127), loops=rng.random() < 0.4)
    # boundary of the failing region: unity note exactly 0 / -1
    for s in range(-128, 1, 2 if ctx.quick else 1):
        off = math.floor((50 * s) / 100)
        for dn in (-1, 0, 1):
            if 0 <= -off + dn <= 255:
                add(-off + dn, s, 0)
                add(-off + dn, s, rng.choice([-128, -1, 1, 127]))
    rng.shuffle(good)
    bad = bad[:(60 if ctx.quick else 1500)]
    jobs = [("encodable", good[i:i + 60]) for i in range(0, len(good), 60)]
    # a failing sample between two good ones: the export must not report it (nor anything malformed)
    for i, b in enumerate(bad):
        jobs.append(("unencodable", [good[(2 * i) % len(good)], b, good[(2 * i + 1) % len(good)]]))
    return jobs


def w_akai_stereo(pid, tier, seed, job):
    """L/R pairs merged into one two-stream stereo sample (pipeline transcoder) through the CLI"""
    ctx = F.Ctx(pid, tier, seed)
    rng = random.Random(job)
    for _ in range(3):
        files, pairs = [], []
        for k in range(rng.randint(1, 3)):
            nl = rng.choice([0, 1, 2, 100, 2047, 2048, 2049, 3000])
            nr = nl if rng.random() < 0.6 else max(0, nl + rng.choice([-2, -1, 1, 5]))
            hdr = mk_akai(rng, rng.randint(40, 100), rng.randint(-20, 20), rng.randint(-128, 127), loops=rng.random() < 0.3)
            pl = struct.pack("<%dh" % nl, *[(k * 13 + i * 3) % 30000 for i in range(nl)])
            pr = struct.pack("<%dh" % nr, *[-((k * 17 + i * 5) % 30000) for i in range(nr)])
            for side, pcm in (("L", pl), ("R", pr)):
                lps = [AW.Loop(at=a, fine=0, coarse=c, duration=du) for (a, c, du) in hdr["loops"]]
                files.append(AW.SampleFile(name="P%d-%s" % (k, side), pcm=pcm, rate=hdr["rate"], note=hdr["note"], semi=hdr["semi"], cents=hdr["cents"],
                                           loop_type=hdr["loop_type"], loops=lps))
            pairs.append((k, hdr, pl, pr))
        img = AW.image_bytes([AW.Partition([AW.Volume("VOL", files)], size_sectors=8 + 2 * len(files) + 2)])
        with R.TempImage(img) as path:
            r, tree, reported = R.export(path)
        case0 = {"pairs": [(k, len(pl) // 2, len(pr) // 2) for k, _, pl, pr in pairs]}
        ctx.require("stereo pairs export without an exception, one file per pair", case0, r.exc is None and len(reported) == len(pairs) and all(p in tree for p in reported),
                    {"exc": r.exc_name, "reported": reported})
        calls, keys = [], []
        for k, hdr, pl, pr in pairs:
            rel = [p for p in reported if os.path.basename(p).startswith("P%d" % k)]
            key = {"pair": k, "left_words": len(pl) // 2, "right_words": len(pr) // 2, "note": hdr["note"], "semi": hdr["semi"], "cents": hdr["cents"], "rate": hdr["rate"]}
            ctx.count("akai_stereo_export", repr(key), nontrivial=True)
            if len(rel) != 1:
                continue
            b = tree.get(rel[0], b"")
            d = akai_expected_desc(dict(hdr, pcm=pl))
            d["ch"] = 2
            ok, why = oracle_wav(b, 2, d["rate"])
            ctx.require("reported file is a well-formed RIFF/WAVE PCM file (AKAI L/R pair through export)", key, ok, why)
            nfr = len(R.parse_wav(b).get("data", b"")) // 4 if ok else -1
            ctx.require("stereo data has between min and max of the two sides' frames", key, (not ok) or min(len(pl), len(pr)) // 2 <= nfr <= max(len(pl), len(pr)) // 2, nfr)
            if len(pl) == len(pr):
                calls.append([4096, enc_desc(d), [[pl, 2, 1, 0], [pr, 2, 1, 0]]])
                keys.append((key, b))
        mod = M.call_batch("export_wav", calls)
        for (key, b), mv in zip(keys, mod):
            ctx.agree("akai_stereo_export", key, ("ok", b), canon(M.res(mv)))
    return ctx.dump()


_AGAIN = []


def path_again(data):
    """a scratch image file that lives until _cleanup_again()"""
    t = R.TempImage(data)
    _AGAIN.append(t)
    return t.__enter__()


def _cleanup_again():
    while _AGAIN:
        _AGAIN.pop().__exit__(None, None, None)


def w_akai_truncated(pid, tier, seed, job):
    """Image files cut inside the PCM data of a mono sample (odd and even offsets, around sector boundaries): whatever export still
    reports must be a well-formed WAV with whole frames."""
    ctx = F.Ctx(pid, tier, seed)
    rng = random.Random(job)
    files = []
    for k in range(rng.randint(1, 3)):
        nw = rng.choice([300, 4096, 5000, 9000, 12288 - 70])
        files.append(AW.SampleFile(name="S%d" % k, pcm=struct.pack("<%dh" % nw, *[((k + 1) * 7 + i * 3) % 30000 for i in range(nw)]),
                                   rate=rng.choice([22050, 44100]), note=60))
    parts = [AW.Partition([AW.Volume("VOL", files)], size_sectors=40)]
    img = AW.image_bytes(parts)
    with R.TempImage(img) as p0:
        _r0, full_tree, _rep0 = R.export(p0)
    cuts = set()
    for f in files:
        d0 = f.sectors[0] * 8192 + 140
        dlen = len(f.pcm)
        for off in (1, 2, 3, 4, 5, 101, 8192 - 140 - 1, 8192 - 140, 8192 - 140 + 1, 8192 - 140 + 2, dlen - 1, dlen - 2, dlen - 3,
                    rng.randrange(1, dlen) | 1, rng.randrange(2, dlen) & ~1, rng.randrange(1, dlen)):
            if 0 < off < dlen:
                cuts.add((d0 + off, f.name, off))
    for cut, fname, off in sorted(cuts):
        with R.TempImage(img[:cut]) as path:
            r, tree, reported = R.export(path)
        case = {"akai_truncated": True, "cut": cut, "inside_data_of": fname, "data_offset": off, "odd": bool(off % 2), "words": [f.n_words for f in files], "seed": job}
        ctx.count("akai_truncated_export", (job, cut), nontrivial=True)
        if not ctx.require("export of a truncated image finishes without exception", case, r.exc is None, r.exc_name):
            continue
        ctx.require("every reported file exists", case, all(p in tree for p in reported), reported)
        for pth in reported:
            if pth in tree:
                ok, why = oracle_wav(tree[pth], 1)
                ctx.require("reported file is a well-formed RIFF/WAVE PCM file (truncated AKAI image through export)", dict(case, file=pth), ok, why)
        # the same export into a directory that still holds the (longer) files of an earlier run: what is reported is the same, well-formed file
        if (cut + job) % 3 == 0 and full_tree:
            r2, tree2, rep2 = R.export(path_again(img[:cut]), prefill=full_tree)
            for pth in rep2:
                ok, why = oracle_wav(tree2.get(pth, b""), 1)
                ctx.require("reported file is a well-formed RIFF/WAVE PCM file (exported over a longer file of an earlier run)", dict(case, file=pth, reused_destination=True), ok, why)
                ctx.require("a file written over an earlier run's file has the same bytes as in an empty destination", dict(case, file=pth, reused_destination=True),
                            tree2.get(pth) == tree.get(pth), {"len_reused": len(tree2.get(pth, b"")), "len_fresh": len(tree.get(pth, b""))})
    _cleanup_again()
    return ctx.dump()


# ---------------------------------------------------------------- (c) CDDA
def w_cdda(pid, tier, seed, job):
    ctx = F.Ctx(pid, tier, seed)
    rng = random.Random(job)
    for _ in range(4):
        n = rng.randint(1, 4)
        fr = [rng.choice([0, 0, 1, 2])]
        for _k in range(n - 1):
            fr.append(fr[-1] + rng.choice([1, 1, 2, 3]))
        tail = rng.choice([0, 1, 2, 3, 4, 5, 6, 7, 2350, 2351, 2352, 2353, 2354, 4098])
        total = fr[-1] * 2352 + tail
        binb = b"".join(struct.pack("<I", (k * 2654435761) & 0xFFFFFFFF) for k in range(total // 4 + 1))[:total]
        tracks = [{"number": k + 1, "mode": "AUDIO", "title": "T%02d" % (k + 1), "indices": [(1, f // 4500, (f // 75) % 60, f % 75)]} for k, f in enumerate(fr)]
        text = R.cue_text("d.bin", tracks)
        case = {"first_frames": fr, "bin_len": total}
        with R.TempImage(text.encode("ascii"), "d.cue", {"d.bin": binb}) as path:
            r, tree, reported = R.export(path)
        ctx.count("cdda_export", (tuple(fr), total), nontrivial=total % 4 != 0 or n > 1)
        ctx.require("CDDA export finishes and reports one file per track", case, r.exc is None and len(reported) == n and all(p in tree for p in reported),
                    {"exc": r.exc_name, "reported": reported})
        d = {"ch": 2, "w": 2, "rate": 44100, "note": None, "semi": None, "cents": None, "loops": []}
        srcs = []
        for k in range(n):
            lo = 2352 * fr[k]
            hi = 2352 * fr[k + 1] if k + 1 < n else total
            srcs.append(binb[lo:hi])
        mod = M.call_batch("export_wav", [[4096, enc_desc(d), [[s, 2, 2, 0]]] for s in srcs])
        files = []
        for k in range(n):
            rel = "T%02d.wav" % (k + 1)
            if rel not in reported:
                continue
            b = tree.get(rel, b"")
            ok, why = oracle_wav(b, 2, 44100)
            ctx.require("reported file is a well-formed RIFF/WAVE PCM file (CDDA track through export)", dict(case, track=k + 1), ok, why)
            ctx.agree("cdda_export", dict(case, track=k + 1), ("ok", b), canon(M.res(mod[k])))
            files.append((dict(case, track=k + 1), b))
        chk = M.call_batch("wav_check", [b for _, b in files])
        for (c, b), cv in zip(files, chk):
            ctx.agree("wav_check", c, True, cv == 1)
    return ctx.dump()


# ---------------------------------------------------------------- malformed stream: the Coq-side walker on damaged files
def oracle_text(b):
    """the property text on raw bytes, without any library: True iff structurally valid"""
    if len(b) < 12 or b[:4] != b"RIFF" or b[8:12] != b"WAVE" or int.from_bytes(b[4:8], "little") != len(b) - 8:
        return False
    pos, chunks = 12, []
    while pos < len(b):
        if pos + 8 > len(b):
            return False
        sz = int.from_bytes(b[pos + 4:pos + 8], "little")
        if pos + 8 + sz > len(b):
            return False
        chunks.append((b[pos:pos + 4], b[pos + 8:pos + 8 + sz]))
        pos += 8 + sz
    ids = [c[0] for c in chunks]
    if ids not in ([b"fmt ", b"data"], [b"fmt ", b"smpl", b"data"]):
        return False
    f = chunks[0][1]
    if len(f) != 16:
        return False
    u = lambda o, w: int.from_bytes(f[o:o + w], "little")
    if u(0, 2) != 1 or u(12, 2) != 2 * u(2, 2) or u(8, 4) != u(4, 4) * u(12, 2) or u(14, 2) != 16 or u(12, 2) == 0:
        return False
    if len(chunks[-1][1]) % u(12, 2) != 0:
        return False
    if len(ids) == 3:
        sm = chunks[1][1]
        if len(sm) < 36 or len(sm) != 36 + 24 * int.from_bytes(sm[28:32], "little"):
            return False
    return True


def w_malformed(pid, tier, seed, job):
    ctx = F.Ctx(pid, tier, seed)
    rng = random.Random(job)
    descs = [gen_desc(rng, exotic=False) for _ in range(40 if tier == "quick" else 200)]
    pcms = [bytes(rng.getrandbits(8) for _ in range(2 * d["ch"] * rng.randint(0, 12))) for d in descs]
    mod = M.call_batch("build_wav", [[enc_desc(d), p] for d, p in zip(descs, pcms)])
    base = [bytes(M.res(mv)[1]) for mv in mod if M.res(mv)[0] == "ok"]
    muts = []
    for b in base:
        muts.append(("intact", b))
        for _ in range(6):
            m = bytearray(b)
            k = rng.choice(["flip", "flip", "size", "trunc", "extend", "swap", "id", "drop_smpl_loop"])
            if k == "flip":
                m[rng.randrange(len(m))] ^= 1 << rng.randrange(8)
            elif k == "size":
                off = rng.choice([4, 16, 40, 44]) if len(m) > 48 else 4
                m[off] = (m[off] + rng.choice([1, 2, 4, 255])) & 0xFF
            elif k == "trunc":
                m = m[:rng.randrange(len(m))]
            elif k == "extend":
                m += bytes(rng.randint(1, 9))
            elif k == "swap" and len(m) >= 44:
                m = m[:12] + m[36:] + m[12:36]
            elif k == "id":
                off = rng.choice([0, 8, 12, 36])
                m[off] ^= 0x20
            elif k == "drop_smpl_loop" and m[36:40] == b"smpl":
                m[68] = (m[68] + 1) & 0xFF
            muts.append((k, bytes(m)))
    chk = M.call_batch("wav_check", [m for _, m in muts])
    for (k, m), cv in zip(muts, chk):
        ctx.count("malformed_" + k, m, nontrivial=k != "intact")
        ctx.agree("wav_check_malformed", {"mutation": k, "file": m.hex() if len(m) < 400 else m[:400].hex() + "..."}, oracle_text(m), cv == 1)
    return ctx.dump()


# ---------------------------------------------------------------- float primitives
def check_float_prims(ctx):
    rng = ctx.rng
    ints = [0, 1, -1, 3, 10 ** 9, 44100, (1 << 53) - 1, 1 << 53, (1 << 53) + 1, (1 << 54) + 2, (1 << 54) + 6, -(1 << 60) - 1, 10 ** 22, 10 ** 23, 10 ** 308, 2 ** 1023, 2 ** 1024 - 2 ** 970, 2 ** 1024 - 2 ** 970 - 1,
            2 ** 1024, -2 ** 1024, 10 ** 400] + [rng.randint(-10 ** 30, 10 ** 30) for _ in range(200)] + [rng.randint(0, 1 << 70) for _ in range(200)]
    mod = M.call_batch("float_of_int", [big(z) for z in ints])
    for z, mv in zip(ints, mod):
        iv = M.impl_res(float, z)
        mr = M.res(mv)
        ctx.count("float_of_int", z)
        ctx.agree("float_of_int", str(z), (iv[0], iv[1].hex() if iv[0] == "ok" else iv[1]), (mr[0], M.dec_float(mr[1]).hex() if mr[0] == "ok" else mr[1]))
    pairs = [(10 ** 9, r) for r in RATES if r] + [(a, b) for a in (0, 1, -1, 7, 44100, 1 << 60, 10 ** 30, 10 ** 400, -10 ** 400) for b in (1, -1, 3, 44100, 65535, 1 << 53, (1 << 64) + 1, 10 ** 320, 10 ** 700)]
    for _ in range(600 if ctx.quick else 20000):
        pairs.append((rng.randint(-(1 << rng.randint(1, 1200)), 1 << rng.randint(1, 1200)), rng.choice([1, -1]) * rng.randint(1, 1 << rng.randint(1, 1200))))
    mod = M.call_batch("int_true_div", [[big(a), big(b)] for a, b in pairs])
    for (a, b), mv in zip(pairs, mod):
        iv = M.impl_res(lambda: a / b)
        mr = M.res(mv)
        ctx.count("int_true_div", (a, b))
        ctx.agree("int_true_div", "%d/%d" % (a, b), (iv[0], iv[1].hex() if iv[0] == "ok" else iv[1]), (mr[0], M.dec_float(mr[1]).hex() if mr[0] == "ok" else mr[1]))
    from smpl_extract.generalized.wav import get_smpl_normalized_pitch
    args = [(s, c) for s in [0, 1, -1, 2, -2, 3, 127, -128, 1000001, -999999] for c in CENTS_I + CENTS_F]
    for _ in range(1500 if ctx.quick else 50000):
        args.append((rng.randint(-300, 300), rng.choice([rng.uniform(-300, 300), rng.randint(-300, 300), 100.0 * rng.randint(-9, 9) + rng.choice([-1, 1]) * 10.0 ** -rng.randint(5, 17),
                                                        rng.uniform(-1, 1) * 10 ** rng.randint(-20, 25)])))
    mod = M.call_batch("normalized_pitch", [[big(s), pyn(c)] for s, c in args])
    for (s, c), mv in zip(args, mod):
        iv = M.impl_res(lambda: list(get_smpl_normalized_pitch(s, c)))
        ctx.count("normalized_pitch", (s, c.hex() if isinstance(c, float) else c))
        ctx.agree("normalized_pitch", {"semi": s, "cents": c.hex() if isinstance(c, float) else c}, iv, M.res(mv)[:2])


def run(ctx):
    check_float_prims(ctx)
    F.pmap(ctx, w_direct, [ctx.seed * 9001 + i for i in range(16 if ctx.quick else 64)])
    F.pmap(ctx, w_streams, [ctx.seed * 9103 + i for i in range(16 if ctx.quick else 64)])
    semis = list(range(-128, 128))
    F.pmap(ctx, w_pitch, [semis[i:i + 8] for i in range(0, 256, 8)])
    F.pmap(ctx, w_akai, akai_jobs(ctx))
    F.pmap(ctx, w_akai_stereo, [ctx.seed * 9257 + i for i in range(16 if ctx.quick else 200)])
    F.pmap(ctx, w_akai_truncated, [ctx.seed * 9341 + i for i in range(8 if ctx.quick else 64)])
    F.pmap(ctx, w_cdda, [ctx.seed * 9209 + i for i in range(32 if ctx.quick else 400)])
    F.pmap(ctx, w_malformed, [ctx.seed * 9311 + i for i in range(16 if ctx.quick else 64)])
    ctx.note("Roland S-7xx images are not generated at image level (no independent S-7xx writer in the harness yet); their Sample shape "
             "(midi note, semi = cents = 0, typed loop regions) is covered by the generalized-Sample generator")


def replay(ctx, case):
    c = case.get("case", {})
    sub = F.Ctx(ctx.pid, ctx.tier, ctx.seed)
    if "desc" in c:
        print("generalized-sample case; header:", c["desc"])
    print("re-run ./check C04 with the same VERIF_SEED (cases are regenerated from the seed)")
    for w, jobs in ((w_direct, [ctx.seed * 9001]), (w_streams, [ctx.seed * 9103]), (w_cdda, [ctx.seed * 9209 + i for i in range(8)])):
        for j in jobs:
            sub.merge(w(ctx.pid, ctx.tier, ctx.seed, j))
    for f in sub.failures[:5]:
        print(f["what"], f["detail"])
    return not sub.failures
