"""C06 - output paths are unique, file-system safe and confined to the destination."""
import os
import random
import shutil
import struct

import framework as F
import model as M
import namecases as NC
import runner as R

RULE = ("function level: make_export_name on every vocabulary name (files and directories) and sanitize_names_general + combine_stereo_routine on exhaustive "
        "sibling multisets of size <= 3 over the near-collision vocabulary and random multisets of size 4-9, in every order, compared with the Coq model and "
        "checked for distinctness/safety; image level: AKAI volumes/files and cue TITLEs with hostile names (.., /, \\\\, quotes, control characters, duplicates, "
        "'(n)' collisions, stereo stems), export confined (realpath) and #files == #Exported lines. Non-trivial = multiset with a repeated or near-colliding name; "
        "distinct = distinct ordered name list")


def image_obj():
    from smpl_extract.structural import Image
    return Image.__new__(Image)


class El:
    def __init__(self, name, is_file):
        from smpl_extract.base import ElementTypes
        self.name = name
        self.type_id = ElementTypes.SampleEntry if is_file else ElementTypes.DirectoryEntry
        self._n = None


def impl_export_names(names, is_file=True):
    img = image_obj()
    els = [El(n, is_file) for n in names]
    img.sanitize_names_general(els, img.make_export_name, lambda e, n: setattr(e, "_n", n))
    return [e._n for e in els]


def impl_safe_names(names, is_file=True):
    img = image_obj()
    els = [El(n, is_file) for n in names]
    img.sanitize_names_general(els, img.make_safe_name, lambda e, n: setattr(e, "_n", n))
    return [e._n for e in els]


def impl_combine(export_names, raw_names=None):
    """raw_names: the stored names the samples carry (pairing goes by the EXPORT names, whatever the stored names are)"""
    import io
    from smpl_extract.generalized.sample import Sample
    from smpl_extract.data_streams import DataStream
    img = image_obj()
    samples = []
    for i, n in enumerate(export_names):
        ds = DataStream(io.BytesIO(bytes([i])))
        ds._src = i
        samples.append(Sample(name=(raw_names[i] if raw_names is not None else n), data_streams=[ds], _export_name=n))
    out = img.combine_stereo_routine(samples)
    return [(s.export_name, [d._src for d in s.data_streams]) for s in out]


def S(x):
    return [ord(c) for c in x]


def U(v):
    return "".join(map(chr, v))


def ascii7(n):
    return all(ord(c) < 128 for c in n)


def check_lists(ctx, lists, is_file):
    lists = [l for l in lists if all(ascii7(n) for n in l)]
    mod_e = M.call_batch("make_export_names", [[[S(n), is_file] for n in l] for l in lists])
    mod_s = M.call_batch("make_safe_names", [[[S(n), is_file] for n in l] for l in lists])
    combos, combo_idx = [], []
    for k, (l, me, ms) in enumerate(zip(lists, mod_e, mod_s)):
        ie = M.impl_res(impl_export_names, l, is_file)
        isf = M.impl_res(impl_safe_names, l, is_file)
        rep = len(set(l)) < len(l)
        ctx.count("sibling_names", (tuple(l), is_file), nontrivial=rep or len(l) > 1)
        me_r, ms_r = M.res(me), M.res(ms)
        ctx.agree("make_export_names", {"names": l, "is_file": is_file}, ie, (me_r[0], [U(x) for x in me_r[1]]) if me_r[0] == "ok" else me_r[:2])
        ctx.agree("make_safe_names", {"names": l, "is_file": is_file}, isf, (ms_r[0], [U(x) for x in ms_r[1]]) if ms_r[0] == "ok" else ms_r[:2])
        case = {"names": l, "is_file": is_file}
        if ie[0] != "ok":
            ctx.require("export names can be assigned", case, False, ie)
            continue
        en = ie[1]
        if not ctx.require("every sibling is given an export name (a string)", case, all(isinstance(n, str) for n in en), [repr(n) for n in en]):
            continue
        ctx.require("sibling export names pairwise distinct", case, len(set(en)) == len(en), en)
        bad = [n for n in en if not NC.component_ok(n + (".wav" if is_file else ""))]
        ctx.require("every path component is non-empty, safe characters only, starts with a word character, no trailing blank/dot", case, not bad, bad)
        if is_file and len(set(en)) == len(en):
            combos.append(en)
            combo_idx.append(case)
    if combos:
        modc = M.call_batch("combine_stereo", [[S(n) for n in en] for en in combos])
        for en, case, mc in zip(combos, combo_idx, modc):
            ic = M.impl_res(impl_combine, en)
            ctx.agree("combine_stereo", {"export_names": en}, ic, ("ok", [(U(a), b) for a, b in mc]))
            if ic[0] != "ok":
                ctx.require("stereo pairing succeeds", case, False, ic)
                continue
            outs = [n for n, _ in ic[1]]
            ctx.require("output file names of one directory pairwise distinct", dict(case, export_names=en, d6_shape=NC.d6_shape(en)),
                        len(set(outs)) == len(outs), outs)
            badc = [n for n in outs if not NC.component_ok(n + ".wav")]
            ctx.require("stereo stem is a safe path component", dict(case, export_names=en), not badc, badc)


def w_func(pid, tier, seed, job):
    ctx = F.Ctx(pid, tier, seed)
    kind, payload = job
    check_lists(ctx, payload, kind)
    return ctx.dump()


def w_single(pid, tier, seed, job):
    ctx = F.Ctx(pid, tier, seed)
    names = [n for n in job if ascii7(n)]
    img = image_obj()
    for is_file in (True, False):
        mod = M.call_batch("make_export_name", [[S(n), is_file] for n in names])
        for n, mv in zip(names, mod):
            iv = img.make_export_name(n, is_file)
            ctx.count("make_export_name", (n, is_file))
            ctx.agree("make_export_name", {"name": n, "is_file": is_file}, iv, U(mv))
            ctx.require("export name is a safe component", {"name": n, "is_file": is_file},
                        NC.component_ok(iv + (".wav" if is_file else "")), iv)
    mod = M.call_batch("make_safe_name", [S(n) for n in names])
    for n, mv in zip(names, mod):
        iv = img.make_safe_name(n)
        ctx.count("make_safe_name", n)
        ctx.agree("make_safe_name", {"name": n}, iv, U(mv))
        ctx.require("safe name has no path separator and no surrounding blank", {"name": n},
                    "/" not in iv and "\\" not in iv and iv == iv.strip(), iv)
    if hasattr(img, "_add_count_to_name"):
        mod = M.call_batch("add_count", [[S(n), i] for n in names for i in (2, 3, 10)])
        k = 0
        for n in names:
            for i in (2, 3, 10):
                ctx.agree("add_count", {"name": n, "i": i}, img._add_count_to_name(n, i), U(mod[k]))
                k += 1
    else:
        ctx.note("C06: relation add_count skipped, internal name Image._add_count_to_name not available (covered through make_export_names)")
    return ctx.dump()


# ------------------------------------------------------------------------- image level
def export_confined(ctx, path, case):
    dest = R.scratch_dir("c06")
    inner = os.path.join(dest, "out")
    os.makedirs(inner)
    try:
        r = R.run_cli(["export", path, "-d", inner])
        files = []
        for d, _, fs in os.walk(dest):
            for f in fs:
                files.append(os.path.realpath(os.path.join(d, f)))
        reported = [ln[len("Exported "):] for ln in r.out.splitlines() if ln.startswith("Exported ")]
        root = os.path.realpath(inner) + os.sep
        outside = [f for f in files if not f.startswith(root)]
        ctx.require("export finishes without exception", case, r.exc is None, r.exc_name)
        ctx.require("every written file lies inside the destination", case, not outside, outside)
        ctx.require("number of files on disk equals number of Exported lines (no two samples to one path)", case,
                    len(files) == len(reported) and len(set(reported)) == len(reported),
                    {"files": len(files), "reported": reported})
        bad = [c for p in reported for c in p.split("/") if not NC.component_ok(c)]
        ctx.require("every reported path component is safe", case, not bad, bad)
    finally:
        shutil.rmtree(dest, ignore_errors=True)


def w_fixed_image(pid, tier, seed, job):
    """deterministic images around names that already carry the extension / differ only in it"""
    import akai_writer as AW
    ctx = F.Ctx(pid, tier, seed)
    if job == 0:
        titles = ["Intro", "Intro.wav", "a.WAV", "a", "x.wav.wav", "x.wav", ".wav"]
        tracks = [{"indices": [(1, 0, 0, i)], "title": t} for i, t in enumerate(titles)]
        case = {"kind": "cdda", "titles": titles}
        ctx.count("image_names", ("cdda-fixed", tuple(titles)), nontrivial=True)
        with R.TempImage(R.cue_text("t.bin", tracks).encode("ascii"), "t.cue", {"t.bin": bytes(2352 * (len(titles) + 1))}) as path:
            export_confined(ctx, path, case)
    elif job == 3:
        # titles longer than a file name may be (255 bytes): siblings that agree in their first 251 characters, the same long title twice
        base = "L" + "o" * 250
        titles = [base + "ng A", base + "ng B", base + "ng A", "x" * 300, "x" * 300, "short"]
        tracks = [{"indices": [(1, 0, 0, i)], "title": t} for i, t in enumerate(titles)]
        case = {"kind": "cdda", "titles": [t[:8] + "...(%d)" % len(t) for t in titles], "d6_shape": False}
        ctx.count("image_names", ("cdda-long-titles", tuple(len(t) for t in titles)), nontrivial=True)
        with R.TempImage(R.cue_text("t.bin", tracks).encode("ascii"), "t.cue", {"t.bin": bytes(2352 * (len(titles) + 1))}) as path:
            export_confined(ctx, path, case)
    elif job == 2:
        # the same stored names as FILE in one partition and as DIRECTORY in the other, in both traversal orders
        # (a directory's export name gets a character appended when it would end in '.' or '-'; a file's does not)
        names = ["AB..", "X-", "Q.", "Z. .", "P+-"]
        fa = [AW.SampleFile(name=f, pcm=struct.pack("<4h", i, i, i, i)) for i, f in enumerate(names[:3])]
        fb = [AW.SampleFile(name=f, pcm=struct.pack("<4h", 9, i, i, i)) for i, f in enumerate(names[3:])]
        pa = AW.Partition([AW.Volume("V", fa)] + [AW.Volume(n, [AW.SampleFile(name="S", pcm=struct.pack("<2h", 1, k))]) for k, n in enumerate(names[3:])], size_sectors=48)
        pb = AW.Partition([AW.Volume(n, [AW.SampleFile(name="S", pcm=struct.pack("<2h", 2, k))]) for k, n in enumerate(names[:3])] + [AW.Volume("W", fb)], size_sectors=48)
        img = AW.image_bytes([pa, pb])
        case = {"kind": "akai", "partitions": [[(v.name, [f.name for f in v.files]) for v in p.volumes] for p in (pa, pb)], "d6_shape": False}
        ctx.count("image_names", ("akai-file-then-directory", tuple(names)), nontrivial=True)
        with R.TempImage(img) as path:
            export_confined(ctx, path, case)
    else:
        fn = ["FX", "FX.WAV", "KICK.WAV", "KICK", "A.WAV L", "A.WAV R", "BRASS SEC.-L", "BRASS SEC.-R", "BRASS SEC", "ORG. L", "ORG. R"]
        files = [AW.SampleFile(name=f, pcm=struct.pack("<4h", i, i, i, i)) for i, f in enumerate(fn)]
        img = AW.image_bytes([AW.Partition([AW.Volume("V.WAV", files), AW.Volume("V", files[:2])], size_sectors=48)])
        case = {"kind": "akai", "volumes": [("V.WAV", fn), ("V", fn[:2])], "d6_shape": False}
        ctx.count("image_names", ("akai-fixed", tuple(fn)), nontrivial=True)
        with R.TempImage(img) as path:
            export_confined(ctx, path, case)
    return ctx.dump()


def w_image(pid, tier, seed, job):
    import akai_writer as AW
    ctx = F.Ctx(pid, tier, seed)
    rng = random.Random(job)
    if job % 2 == 0:
        # CDDA: hostile titles
        voc = NC.vocab(False)
        n = rng.randint(2, 7)
        titles = [rng.choice(voc + [None, None]) for _ in range(n)]
        titles = [t.replace('"', "'") if t else t for t in titles]
        titles = [t for t in titles if t is None or all(32 <= ord(c) < 127 or c == "\t" or ord(c) < 10 for c in t)]
        tracks = [{"indices": [(1, 0, 0, i)], "title": t} for i, t in enumerate(titles)]
        cue = R.cue_text("t.bin", tracks)
        case = {"kind": "cdda", "titles": titles}
        ctx.count("image_names", ("cdda", tuple(titles)), nontrivial=True)
        try:
            data = cue.encode("ascii")
        except UnicodeEncodeError:
            return ctx.dump()
        with R.TempImage(data, "t.cue", {"t.bin": bytes(2352 * (len(titles) + 1))}) as path:
            export_confined(ctx, path, case)
    else:
        voc = NC.vocab(True)
        vols = []
        vnames = [rng.choice(voc) for _ in range(rng.randint(1, 3))]
        # identically / near-identically named sibling directories sharing sample names
        if len(vnames) > 1 and rng.random() < 0.5:
            vnames[1] = vnames[0] if rng.random() < 0.7 else (vnames[0].replace("+", " ").replace("-", " "))
        prev = None
        for vn in vnames:
            fn = list(next(NC.multisets(rng, voc, rng.randint(1, 6), 1)))
            if prev is not None and rng.random() < 0.6:
                fn[:2] = prev[:2]
            prev = fn
            files = [AW.SampleFile(name=f, pcm=struct.pack("<4h", i, i, i, i)) for i, f in enumerate(fn)]
            vols.append(AW.Volume(vn, files))
        img = AW.image_bytes([AW.Partition(vols, size_sectors=48)])
        case = {"kind": "akai", "volumes": [(v.name, [f.name for f in v.files]) for v in vols]}
        case["d6_shape"] = any(NC.d6_shape(impl_export_names([AW.displayed_name(f.name) for f in v.files])) for v in vols)
        ctx.count("image_names", ("akai", repr(case["volumes"])), nontrivial=True)
        with R.TempImage(img) as path:
            export_confined(ctx, path, case)
    return ctx.dump()


def chunks(l, n):
    l = list(l)
    for i in range(0, len(l), n):
        yield l[i:i + n]


def run(ctx):
    rng = ctx.rng
    voc = NC.vocab(False)
    F.pmap(ctx, w_single, list(chunks(voc, 60)))
    small = NC.STEMS_AKAI[:6]
    core = [s + x for s in ["A", "B", "A 1", "A+1"] for x in ["", " L", " R", "-L", "-R", "  L", " (2)", " (2) L"]]
    jobs = []
    ex2 = [list(p) for p in NC.exhaustive_small(core, 2)]
    jobs += [(True, c) for c in chunks(ex2, 400)]
    jobs += [(False, c) for c in chunks(ex2[::3], 400)]
    ex3 = [list(p) for p in NC.exhaustive_small(core[:12] if ctx.quick else core[:20], 3)]
    jobs += [(True, c) for c in chunks(ex3, 400)]
    ex4 = [list(p) for p in NC.exhaustive_small(["B-L", "B L", "B-R", "B R", "B", "B (2) L"], 4)]
    jobs += [(True, c) for c in chunks(ex4, 400)]
    rnd = []
    for k in (4, 5, 6, 9):
        rnd += list(NC.multisets(rng, voc, k, 150 if ctx.quick else 3000))
    jobs += [(True, c) for c in chunks(rnd, 300)]
    jobs += [(False, c) for c in chunks(rnd[::4], 300)]
    F.pmap(ctx, w_func, jobs)
    F.pmap(ctx, w_fixed_image, [0, 1, 2, 3])
    F.pmap(ctx, w_image, [ctx.seed * 4099 + i for i in range(24 if ctx.quick else 300)])
    ctx.exhaustive = True


def replay(ctx, case):
    c = case["case"]
    sub = F.Ctx(ctx.pid, ctx.tier, ctx.seed)
    if "names" in c:
        check_lists(sub, [c["names"]], c.get("is_file", True))
    elif "name" in c:
        sub.merge(w_single(ctx.pid, ctx.tier, ctx.seed, [c["name"]]))
    else:
        print("image-level case: re-run with the same VERIF_SEED", c)
        return False
    for f in sub.failures:
        print(f["what"], f["detail"])
    return not sub.failures
