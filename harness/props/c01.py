"""C01 - AKAI export is byte-exact for every sector allocation and file length."""
import random
import struct

import framework as F
import model as M
import runner as R

RULE = ("images serialised by the independent AKAI writer from a random logical model: 1-2 partitions x 1-3 volumes x 0-6 sample files; every file's "
        "volume-table slots packed or scattered over the 100 slots (inactive slots between active volumes, slot 99 used); sector chain contiguous / reversed / shuffled / interleaved with its neighbours' (head not the lowest sector included); directory as reserved-flag "
        "run (both flags) or as linked chain; PCM lengths from {0, 1, k*8192-140 bytes -2/0/+2 (file fills its last sector exactly), random}; start/end "
        "markers at the ends and inside; rates incl. 0 (=> 44100) and 65535; both sample type bytes; L/R pairs of equal and unequal length. Each image is "
        "exported by the real CLI and by the extracted Coq whole-image model (akai_export); both are compared with each other (paths, rate, channels, PCM) "
        "and with the writer's own expectation (oracle). Non-trivial = image with at least one multi-sector or non-contiguous file; distinct = distinct image bytes")

SECTOR = 8192


def gen_image(rng, tier):
    import akai_writer as AW
    parts = []
    meta = {"fragmented": False, "multi_sector": False, "exact_fill": False}
    nparts = 1 if rng.random() < 0.8 else 2
    for pi in range(nparts):
        size = rng.choice([48, 64, 80])
        vols = []
        used_v = set()
        for vi in range(rng.randint(1, 3)):
            vname = rng.choice(["VOL", "DRUMS", "A", "PADS 1", "X-1"]) + str(vi)
            files = []
            nfiles = rng.randint(0, 6)
            names = []
            pool = ["KICK", "SNARE", "HAT", "TOM 1", "TOM 2", "BASS", "PAD#1", "FX.1", "FX.WAV", "FX", "Z9", "STR L", "STR R", "GTR-L", "GTR-R", "LEAD"]
            rng.shuffle(pool)
            names = pool[:nfiles]
            for fi, n in enumerate(names):
                kind = rng.random()
                if kind < 0.15:
                    nw = 0
                elif kind < 0.25:
                    nw = 1
                elif kind < 0.55:
                    k = rng.randint(1, 2)
                    nw = (k * SECTOR - 140) // 2 + rng.choice([-1, 0, 0, 1])
                    meta["exact_fill"] = True
                elif kind < 0.7:
                    nw = rng.randint(3, 6) * SECTOR // 2 - rng.randint(70, 3000)      # 3-6 sectors
                    meta["multi_sector"] = True
                else:
                    nw = rng.randint(2, 6000)
                # make L/R partners equal length most of the time
                if n.endswith("R") and any(x.name == n[:-1] + "L" for x in files) and rng.random() < 0.7:
                    nw = [x for x in files if x.name == n[:-1] + "L"][0].n_words
                base = (pi * 7 + vi * 5 + fi * 3 + 1) * 257
                pcm = struct.pack("<%dH" % nw, *[(base + 31 * w) % 65536 for w in range(nw)])
                start = rng.choice([0, 0, 0, 1, nw // 2]) if nw else 0
                end = rng.choice([None, None, nw, max(start, nw - 1), max(start, nw // 2 + 1 if nw > 1 else nw)]) if nw else None
                if end is not None and end > nw:
                    end = nw
                if nw and end is not None and end <= start:
                    # degenerate window (start marker == end marker) only rarely: known finding D13
                    if rng.random() < 0.8:
                        end = min(nw, start + 1) if start < nw else None
                        if end is None:
                            start = 0
                if 2 * nw + 140 > SECTOR:
                    meta["multi_sector"] = True
                t = rng.random() < 0.5
                # loop tables: active loops inside AND beyond the markers, any loop mode - the exported data is the marker window regardless
                lps, lt = [], 2
                if nw > 8 and rng.random() < 0.35:
                    lt = rng.choice([0, 1, 3, 2])
                    for _l in range(rng.randint(1, 3)):
                        at = rng.choice([nw - 1, nw // 2, (end if end is not None else nw) + rng.randint(0, max(0, nw - (end or nw))), rng.randint(1, nw - 1)])
                        lps.append(AW.Loop(at=min(at, nw - 1), fine=rng.choice([0, 100]), coarse=rng.randint(1, max(1, min(at, nw - 1))), duration=rng.choice([0, 25, 9999])))
                    meta["loops"] = True
                files.append(AW.SampleFile(name=n, pcm=pcm, start=start, end=end, loop_type=lt, loops=lps, rate=rng.choice([0, 22050, 44100, 48000, 65535, 8000]),
                                           type_byte=0xF3 if t else 0x73, header_id=3 if t else 1, note=rng.randint(21, 108),
                                           cents=rng.randint(-128, 127), semi=rng.randint(-20, 50)))
            # slots that are not sample files: deleted entry (type 0), file types the tool does not know, drum/effects files
            if rng.random() < 0.4:
                for g in range(rng.randint(1, 2)):
                    ghost = AW.SampleFile(name="GH0ST%d" % g, type_byte=rng.choice([0x00, 0xF8, 0x74, 0x64, 0x78, 0x71]),
                                          raw_body=bytes(rng.randrange(256) for _ in range(rng.randint(1, 300))))
                    files.insert(rng.randint(0, len(files)), ghost)
                meta["non_sample_slots"] = True
            vols.append(AW.Volume(vname, files, vtype=rng.choice([1, 3]), dir_style=rng.choice(["run", "run", "chain"]),
                                  res_flag=rng.choice([AW.SAT_RES_STD, AW.SAT_RES_V2])))
        # volume-table slots: packed from the front, or scattered over the 100 slots (deleted volumes leave inactive slots behind)
        slots = None
        if rng.random() < 0.5:
            slots = sorted(rng.sample(range(100), len(vols)))
            if rng.random() < 0.3:
                slots[-1] = 99
            meta["volume_holes"] = True
        # room for every file (whole sectors), every directory and the shuffled / interleaved allocation orders
        need = 3 + sum(1 + sum(max(1, -(-len(f.body()) // SECTOR)) for f in v.files) for v in vols)
        size = max(size, 2 * need + 12)
        parts.append(AW.Partition(vols, size_sectors=size, slots=slots))
    # allocation order
    mode = rng.choice(["contig", "reversed", "shuffled", "interleaved", "shuffled", "midswap", "midswap"])
    meta["alloc"] = mode

    def order(free, n):
        if mode == "contig":
            return free[:n]
        if mode == "reversed":
            return list(reversed(free[:n]))
        if mode == "interleaved":
            return free[::2][:n] if len(free[::2]) >= n else free[:n]
        if mode == "midswap":
            # a gap-free range entered at its lowest and left at its highest sector, the middle out of order
            r = free[:n]
            mid = r[1:-1]
            if len(mid) >= 2:
                rng.shuffle(mid)
                if mid == r[1:-1]:
                    mid = mid[::-1]
            return r[:1] + mid + r[-1:] if n >= 2 else r
        pick = rng.sample(free[:min(len(free), n + 6)], n)
        return pick
    allocs = [AW.Allocator(p.size_sectors, order) for p in parts]
    img = AW.image_bytes(parts, allocs)
    for p in parts:
        for v in p.volumes:
            for f in v.files:
                if f.sectors and len(f.sectors) > 1 and f.sectors != list(range(f.sectors[0], f.sectors[0] + len(f.sectors))):
                    meta["fragmented"] = True
    return img, parts, meta


def expectation(parts):
    """{path: (channels, rate, [windows in channel order])} from the logical model (property text)."""
    import akai_writer as AW
    import namecases as NC
    exp = {}
    for pi, p in enumerate(parts):
        for v in p.volumes:
            samples = [f for f in v.files if f.is_sample]
            names = [AW.displayed_name(f.name) for f in samples]
            for nm, src in NC.expected_pairs(names):
                fs = [samples[i] for i in src]
                rate = fs[0].rate or 44100
                exp["%s/%s/%s.wav" % (chr(65 + pi), v.name, nm)] = (len(fs), rate, [f.window() for f in fs])
    return exp


def deinterleave(data, ch):
    return [b"".join(data[i:i + 2] for i in range(2 * c, len(data), 2 * ch)) for c in range(ch)]


def check_image(ctx, img, parts, meta, tag):
    exp = expectation(parts)
    case = {"image": tag, "alloc": meta.get("alloc"), "files": {k: (v[0], v[1], [len(w) for w in v[2]]) for k, v in exp.items()}}
    with R.TempImage(img) as path:
        r, tree, reported = R.export(path)
    ctx.count("akai_image", tag, nontrivial=meta["fragmented"] or meta["multi_sector"])
    ctx.dist_add = None
    if tag == "d16-unencodable-tuning":
        case["unencodable_tuning"] = True
    if not ctx.require("export finishes without exception", case, r.exc is None, r.exc_name):
        return
    got = {}
    for pth, b in tree.items():
        w = R.parse_wav(b)
        if not ctx.require("every written file is a well-formed WAV", dict(case, file=pth), w["ok"], w["why"]):
            continue
        got[pth] = (w["channels"], w["rate"], w["data"])
    missing = sorted(set(exp) - set(got))
    ctx.require("exactly one WAV per sample / per L-R pair at <partition>/<volume>/<name>.wav, nothing else",
                dict(case, only_unencodable_missing=(case.get("unencodable_tuning") is True and missing == ["A/V/LOWTUNE.wav"] and not (set(got) - set(exp)))),
                sorted(got) == sorted(exp) and sorted(reported) == sorted(exp), {"written": sorted(got), "expected": sorted(exp)})
    for pth, (ch, rate, wins) in exp.items():
        if pth not in got:
            continue
        gch, grate, gdata = got[pth]
        c2 = dict(case, file=pth)
        ctx.require("sample rate is the header's (44100 when stored as 0)", c2, grate == rate, (grate, rate))
        ctx.require("channel count", c2, gch == ch, (gch, ch))
        if gch != ch:
            continue
        chans = deinterleave(gdata, ch)
        short = min(len(w) for w in wins)
        longest = max(len(w) for w in wins)
        for c, (g, w) in enumerate(zip(chans, wins)):
            if ch == 1:
                ctx.require("PCM is byte-identical to the words between the start and end markers", dict(c2, empty_window_in_nonempty_file=(len(w) == 0 and len(g) > 0)), g == w,
                            {"len_got": len(g), "len_want": len(w), "first_diff": next((i for i, (a, b) in enumerate(zip(g, w)) if a != b), None)})
            else:
                ctx.require("stereo pair: channel %d equals the %s sample's words for every frame below the shorter one" % (c, "LR"[c]), c2,
                            g[:short] == w[:short] and short <= len(g) <= longest, {"len_got": len(g), "short": short, "long": longest})
    # correspondence with the Coq whole-image model
    mv = M.res(M.call_batch("akai_export", [M.Raw(M.enc_image(img))])[0])
    if mv[0] != "ok":
        ctx.agree("akai_export", case, ("ok", sorted(got)), mv[:2])
        return
    mod = {}
    for comps, rate, ch, pcm in mv[1]:
        mod["/".join("".join(map(chr, c)) for c in comps) + ".wav"] = (ch, rate, bytes(pcm))
    if case.get("unencodable_tuning"):
        mod.pop("A/V/LOWTUNE.wav", None)      # the WAV header encoding is C04's model, not part of akai_export (known finding D16)
    ctx.agree("akai_export.paths", case, sorted(got), sorted(mod))
    for pth in sorted(set(got) & set(mod)):
        gch, grate, gdata = got[pth]
        mch, mrate, mdata = mod[pth]
        ch, rate, wins = exp.get(pth, (gch, grate, []))
        equal_len = len(set(len(w) for w in wins)) <= 1
        ctx.agree("akai_export.header", dict(case, file=pth), (gch, grate, len(gdata)), (mch, mrate, len(mdata)))
        if equal_len:
            ctx.agree("akai_export.pcm", dict(case, file=pth), gdata.hex()[:64] + "|%d" % hash(gdata), mdata.hex()[:64] + "|%d" % hash(mdata))
        else:
            short = min(len(w) for w in wins) * gch
            ctx.agree("akai_export.pcm", dict(case, file=pth), hash(gdata[:short]), hash(mdata[:short]))


def w_image(pid, tier, seed, job):
    ctx = F.Ctx(pid, tier, seed)
    rng = random.Random(job)
    img, parts, meta = gen_image(rng, tier)
    check_image(ctx, img, parts, meta, job)
    return ctx.dump()


def corpus_images():
    """minimised historic failures, run first: D3 (file fills its last sector), D4 (chain 7->3->5)."""
    import akai_writer as AW
    out = []
    nw = (2 * SECTOR - 140) // 2
    f = AW.SampleFile(name="EXACT", pcm=struct.pack("<%dH" % nw, *range(nw)))
    out.append(("d3-exact-fill", [AW.Partition([AW.Volume("V", [f, AW.SampleFile(name="NEXT", pcm=b"\x01\x00\x02\x00")])], size_sectors=40)], None))
    nw2 = (3 * SECTOR - 140) // 2 - 5
    g = AW.SampleFile(name="BACK", pcm=struct.pack("<%dH" % nw2, *[(7 * i) % 65536 for i in range(nw2)]), sectors=[17, 9, 12])
    out.append(("d4-head-not-lowest", [AW.Partition([AW.Volume("V", [g])], size_sectors=40)], None))
    nw3 = (5 * SECTOR - 140) // 2 - 9
    m = AW.SampleFile(name="MIDSWAP", pcm=struct.pack("<%dH" % nw3, *[(5 * i + 1) % 65536 for i in range(nw3)]), sectors=[20, 22, 21, 23, 24])
    out.append(("midswap-contiguous-range", [AW.Partition([AW.Volume("V", [m])], size_sectors=40)], None))
    h = AW.SampleFile(name="EMPTYWIN", pcm=struct.pack("<3H", 11, 22, 33), start=1, end=1)
    out.append(("d13-empty-window", [AW.Partition([AW.Volume("V", [h])], size_sectors=40)], None))
    u = AW.SampleFile(name="LOWTUNE", pcm=struct.pack("<4H", 1, 2, 3, 4), note=24, semi=-128)
    out.append(("d16-unencodable-tuning", [AW.Partition([AW.Volume("V", [AW.SampleFile(name="FIRST", pcm=b"\x05\x00"), u,
                                                                         AW.SampleFile(name="LAST", pcm=b"\x06\x00")])], size_sectors=40)], None))
    a, b, c = (AW.SampleFile(name=n, pcm=struct.pack("<2H", i, i + 1)) for i, n in enumerate(["ONE", "TWO", "THREE"]))
    out.append(("volume-table-holes", [AW.Partition([AW.Volume("FIRST", [a]), AW.Volume("THIRD", [b]), AW.Volume("LAST", [c])], size_sectors=40, slots=[0, 2, 99])], None))
    # two and three CONSECUTIVE directory slots that are not sample files, samples before, between and after them
    def gh(i, t):
        return AW.SampleFile(name="GH0ST%d" % i, type_byte=t, raw_body=bytes([i + 1]) * 50)
    sm = [AW.SampleFile(name=n, pcm=struct.pack("<3H", 10 * i, 10 * i + 1, 10 * i + 2)) for i, n in enumerate(["KICK", "HAT", "RIDE", "SNARE", "TOM"])]
    out.append(("consecutive-non-sample-slots", [AW.Partition([AW.Volume("V", [sm[0], gh(0, 0x63), gh(1, 0xED), sm[1], gh(2, 0x00), gh(3, 0xF8), gh(4, 0x74), sm[2], sm[3], gh(5, 0x64), sm[4]])],
                                                                 size_sectors=48)], None))
    # a volume with more files than one directory sector holds (341 entries): the directory really uses its second sector
    many = [AW.SampleFile(name="S%03d" % i, pcm=struct.pack("<2H", i, 65535 - i)) for i in range(345)]
    out.append(("directory-two-sectors", [AW.Partition([AW.Volume("BIG", many, dir_style="run"), AW.Volume("SMALL", [AW.SampleFile(name="X", pcm=b"\x01\x00")])], size_sectors=400)], None))
    return out


def w_corpus(pid, tier, seed, job):
    import akai_writer as AW
    ctx = F.Ctx(pid, tier, seed)
    tag, parts, allocs = corpus_images()[job]
    img = AW.image_bytes(parts, allocs)
    check_image(ctx, img, parts, {"fragmented": True, "multi_sector": True, "exact_fill": True, "alloc": "corpus"}, tag)
    return ctx.dump()


def run(ctx):
    F.pmap(ctx, w_corpus, list(range(len(corpus_images()))))
    F.pmap(ctx, w_image, [ctx.seed * 9973 + i for i in range(30 if ctx.quick else 480)])


def replay(ctx, case):
    c = case["case"]
    tag = c.get("image")
    sub = F.Ctx(ctx.pid, ctx.tier, ctx.seed)
    if isinstance(tag, int):
        sub.merge(w_image(ctx.pid, ctx.tier, ctx.seed, tag))
    else:
        for i, (t, _, _) in enumerate(corpus_images()):
            if t == tag:
                sub.merge(w_corpus(ctx.pid, ctx.tier, ctx.seed, i))
    for f in sub.failures:
        print(f["what"], f["detail"])
    return not sub.failures and not sub.disagreements
