"""Run the real implementation (/repo working tree) in-process: `ls` and `export`.

Must be executed by /venv/bin/python with PYTHONPATH=/repo (the `check` driver does
that).  Everything observable goes through the public CLI entry point
smpl_extract.__main__.main or the public classes.
"""
from __future__ import annotations
import contextlib
import io
import os
import shutil
import sys
import tempfile
from typing import Dict, List, Tuple

REPO = os.environ.get("VERIF_REPO", "/repo")
if REPO not in sys.path:
    sys.path.insert(0, REPO)

_SCRATCH_ROOT = os.environ.get("VERIF_SCRATCH") or None


def scratch_dir(prefix="vf") -> str:
    return tempfile.mkdtemp(prefix=prefix + "-", dir=_SCRATCH_ROOT)


class CliResult:
    def __init__(self, out: str, exc: BaseException | None):
        self.out = out
        self.exc = exc

    @property
    def exc_name(self):
        return type(self.exc).__name__ if self.exc is not None else None


def run_cli(argv: List[str]) -> CliResult:
    from smpl_extract.__main__ import main
    buf = io.StringIO()
    exc = None
    with contextlib.redirect_stdout(buf):
        try:
            main(list(argv))
        except SystemExit as e:      # argparse
            exc = e
        except BaseException as e:   # noqa: report every escape
            if isinstance(e, (KeyboardInterrupt, MemoryError)):
                raise
            exc = e
    return CliResult(buf.getvalue(), exc)


def ls(image_path: str, inner: str = "") -> CliResult:
    return run_cli(["ls", image_path, inner])


def read_tree(root: str) -> Dict[str, bytes]:
    out = {}
    for d, _, files in os.walk(root):
        for f in files:
            p = os.path.join(d, f)
            rel = os.path.relpath(p, root).replace(os.sep, "/")
            with open(p, "rb") as fh:
                out[rel] = fh.read()
    return out


def export(image_path: str, prefill: Dict[str, bytes] | None = None) -> Tuple[CliResult, Dict[str, bytes], List[str]]:
    """Returns (cli result, {relative path: file bytes}, list of 'Exported' paths).
    prefill: files that already lie in the destination before the export (an earlier run into the same directory)."""
    dest = scratch_dir("exp")
    try:
        for rel, b in (prefill or {}).items():
            pth = os.path.join(dest, rel)
            os.makedirs(os.path.dirname(pth), exist_ok=True)
            with open(pth, "wb") as f:
                f.write(b)
        r = run_cli(["export", image_path, "-d", dest])
        tree = read_tree(dest)
    finally:
        shutil.rmtree(dest, ignore_errors=True)
    reported = [ln[len("Exported "):] for ln in r.out.splitlines() if ln.startswith("Exported ")]
    return r, tree, reported


class TempImage:
    """Write bytes to a scratch file (plus optional side files), remove on exit."""

    def __init__(self, data: bytes, name: str = "image.img", extra: Dict[str, bytes] | None = None):
        self.data, self.name, self.extra = data, name, extra or {}

    def __enter__(self) -> str:
        self.dir = scratch_dir("img")
        self.path = os.path.join(self.dir, self.name)
        with open(self.path, "wb") as f:
            f.write(self.data)
        for n, b in self.extra.items():
            with open(os.path.join(self.dir, n), "wb") as f:
                f.write(b)
        return self.path

    def __exit__(self, *a):
        shutil.rmtree(self.dir, ignore_errors=True)


def parse_wav(b: bytes):
    """Independent RIFF walker: returns dict(chunks=[(id, body)], fmt=..., data=..., ok, why)."""
    import struct
    res = {"ok": False, "why": "", "chunks": []}
    if len(b) < 12 or b[0:4] != b"RIFF" or b[8:12] != b"WAVE":
        res["why"] = "no RIFF/WAVE header"
        return res
    (riff_size,) = struct.unpack("<I", b[4:8])
    if riff_size != len(b) - 8:
        res["why"] = "riff size %d != len-8 %d" % (riff_size, len(b) - 8)
        return res
    pos = 12
    while pos < len(b):
        if pos + 8 > len(b):
            res["why"] = "dangling chunk header"
            return res
        cid = b[pos:pos + 4]
        (sz,) = struct.unpack("<I", b[pos + 4:pos + 8])
        if pos + 8 + sz > len(b):
            res["why"] = "chunk %r overruns file" % cid
            return res
        res["chunks"].append((cid, b[pos + 8:pos + 8 + sz]))
        pos += 8 + sz
    ids = [c[0] for c in res["chunks"]]
    if ids not in ([b"fmt ", b"data"], [b"fmt ", b"smpl", b"data"]):
        res["why"] = "chunk order %r" % ids
        return res
    fmt = res["chunks"][0][1]
    if len(fmt) != 16:
        res["why"] = "fmt size %d" % len(fmt)
        return res
    af, ch, rate, brate, balign, bits = struct.unpack("<HHIIHH", fmt)
    res.update(audio_format=af, channels=ch, rate=rate, byte_rate=brate, block_align=balign, bits=bits)
    if af != 1 or bits != 16 or balign != 2 * ch or brate != (rate * balign) % (1 << 32) and brate != rate * balign:
        res["why"] = "fmt fields inconsistent %r" % ((af, ch, rate, brate, balign, bits),)
        return res
    data = res["chunks"][-1][1]
    res["data"] = data
    if ch == 0 or len(data) % (2 * ch) != 0:
        res["why"] = "data not whole frames"
        return res
    if len(ids) == 3:
        sm = res["chunks"][1][1]
        if len(sm) < 36:
            res["why"] = "smpl too short"
            return res
        nloops, sdata = struct.unpack("<II", sm[28:36])
        res["smpl"] = sm
        res["nloops"] = nloops
        if len(sm) != 36 + 24 * nloops + sdata or sdata != 0:
            res["why"] = "smpl size %d != 36+24*%d" % (len(sm), nloops)
            return res
    res["ok"] = True
    return res


def open_image(path: str):
    """Open an image the way the CLI does (determine_image_type + the two naming routines)."""
    from smpl_extract.actions import determine_image_type
    image = determine_image_type(path)
    image.set_routines({"make_safe_names": image.make_safe_names_routine,
                        "make_export_names": image.make_export_names_routine})
    return image


def walk_samples(node, prefix=()):
    """Yield (path tuple of safe names, element) for every sample leaf under node."""
    from smpl_extract.base import ElementTypes
    from smpl_extract.structural import Traversable
    for ch in node.children:
        p = prefix + (ch.safe_name,)
        if getattr(ch, "type_id", None) == ElementTypes.SampleEntry:
            yield p, ch
        elif isinstance(ch, Traversable):
            yield from walk_samples(ch, p)


def close_image(image):
    for attr in ("file",):
        f = getattr(image, attr, None)
        try:
            if f is not None:
                f.close()
        except Exception:
            pass


def cue_text(bin_name: str, tracks) -> str:
    """tracks: list of dict(mode='AUDIO', title=None|str, indices=[(num,m,s,f),...])"""
    lines = ['FILE "%s" BINARY' % bin_name]
    for i, t in enumerate(tracks):
        lines.append("  TRACK %02d %s" % (t.get("number", i + 1), t.get("mode", "AUDIO")))
        if t.get("title") is not None:
            lines.append('    TITLE "%s"' % t["title"])
        for (n, m, s, f) in t["indices"]:
            lines.append("    INDEX %02d %02d:%02d:%02d" % (n, m, s, f))
    return "\n".join(lines) + "\n"
