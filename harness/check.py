"""./check <Cxx> [--tier quick|thorough] [--replay file] — one property check."""
from __future__ import annotations
import argparse
import importlib
import json
import os
import sys
import traceback

HERE = os.path.dirname(os.path.abspath(__file__))
sys.path.insert(0, HERE)
import framework  # noqa: E402


def main(argv=None) -> int:
    ap = argparse.ArgumentParser()
    ap.add_argument("pid")
    ap.add_argument("--tier", default=os.environ.get("VERIF_TIER", "quick"), choices=["quick", "thorough"])
    ap.add_argument("--replay", default=None)
    ap.add_argument("--no-build", action="store_true", help="skip make (development only)")
    a = ap.parse_args(argv)
    seed = int(os.environ.get("VERIF_SEED", "0") or 0)
    ctx = framework.Ctx(a.pid, a.tier, seed)
    try:
        mod = importlib.import_module("props.%s" % a.pid.lower())
    except ModuleNotFoundError:
        print("no check registered for %s" % a.pid)
        return 2
    framework.RULES[a.pid] = getattr(mod, "RULE", "")
    proof, build_error = None, None
    try:
        if not a.no_build:
            framework.build_all()
        proof = framework.check_props(a.pid)
    except framework.BuildError as e:
        build_error = str(e)
        # A proof about the hand-written model cannot break through an edit of /repo;
        # only generated files (coq/Gen*) can.  Distinguish the two.
        if "Gen" not in build_error:
            print("INTERNAL ERROR (the /verif development itself does not build):\n" + build_error)
            return 2
    if a.replay:
        case = json.load(open(a.replay))
        ok = mod.replay(ctx, case)
        print("replay: property %s on this case" % ("HOLDS" if ok else "FAILS"))
        return 0 if ok else 1
    try:
        mod.run(ctx)
    except Exception as e:
        tb = traceback.format_exc()
        # an exception that escapes from the IMPLEMENTATION (innermost frame under /repo) at a point where the
        # harness did not expect one is a behaviour change of the code under test, not a defect of the harness
        inner = traceback.extract_tb(e.__traceback__)[-1].filename if e.__traceback__ else ""
        cause = getattr(e, "__cause__", None)
        text = tb + (str(cause) if cause else "")
        if framework.REPO.rstrip("/") + "/" in inner or ('File "%s/' % framework.REPO.rstrip("/")) in text:
            ctx.failures.append({"what": "the implementation raised an exception where the check expects none",
                                 "case": {"exception": type(e).__name__}, "detail": text[-3000:],
                                 "replay": {"exception": type(e).__name__, "traceback": text[-3000:]}})
        else:
            # the harness itself failed while driving / judging the implementation (an output of an unexpected shape, a
            # helper that is gone): the correspondence could not be evaluated, so the tie no longer checks.  Reported as
            # a violation without a failing input (the traceback is the replay), never silently passed.
            print("harness could not evaluate the implementation's behaviour:\n" + tb[-1500:])
            ctx.disagreements.append({"relation": "harness-evaluation", "case": {"exception": type(e).__name__, "traceback": text[-3000:]},
                                      "impl": "behaviour the harness could not evaluate", "model": None})
    return framework.finish(ctx, proof, build_error, level=getattr(mod, "LEVEL", "proof"))


if __name__ == "__main__":
    sys.exit(main())
