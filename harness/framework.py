"""Check framework: build + proof audit, correspondence bookkeeping, decision, evidence."""
from __future__ import annotations
import fcntl
import hashlib
import json
import os
import random
import re
import subprocess
import sys
import time
from typing import Any, Callable, Dict, List, Optional

VERIF = os.path.dirname(os.path.dirname(os.path.abspath(__file__)))
COQ = os.path.join(VERIF, "coq")
OCAML = os.path.join(VERIF, "ocaml")
REPO = os.environ.get("VERIF_REPO", "/repo")
NPROC = os.cpu_count() or 4

FORBIDDEN = re.compile(
    r"\b(Admitted|admit|Axiom|Axioms|Parameter|Parameters|Conjecture|Conjectures|Hypothesis|Hypotheses|Variable|Variables"
    r"|Admit Obligations|Unset Guard Checking|Unset Positivity Checking|Unset Universe Checking"
    r"|bypass_check|type-in-type|impredicative-set|native_compute)\b")
# Primitive constants of the kernel's float / int63 support that Print Assumptions lists
ALLOWED_ASSUMPTION = re.compile(r"^(PrimInt63|PrimFloat|Uint63|FloatAxioms|FloatLemmas|SpecFloat|Uint63Axioms)\.")

TRUSTED_BASE = [
    "Coq 8.16.1 kernel (coqc, full .vo build; vm_compute used for finite-domain and float evaluation; native_compute not used)",
    "no Axiom/Parameter/Admitted in the development (grepped on every run); Print Assumptions of every property theorem parsed on every run",
    "hand-written Gallina model of the anchored code, tied to /repo by the correspondence run of this check (extracted model vs real implementation on the same inputs)",
    "extraction: ExtrOcamlBasic + ExtrOCamlFloats + ExtrOCamlInt63 only; Z/N/positive/nat stay inductive; ocaml/driver.ml (s-expression marshalling) trusted",
    "harness: independent image writers, oracles written from the property text, canonicalisation of results (Python)",
]


def sh(cmd, timeout=None, cwd=None, env=None):
    p = subprocess.run(cmd, shell=isinstance(cmd, str), cwd=cwd, env=env, timeout=timeout,
                       stdout=subprocess.PIPE, stderr=subprocess.STDOUT)
    return p.returncode, p.stdout.decode(errors="replace")


class BuildError(Exception):
    pass


def scan_forbidden() -> List[str]:
    bad = []
    for d, _, files in os.walk(COQ):
        for f in files:
            if not f.endswith(".v"):
                continue
            p = os.path.join(d, f)
            src = open(p).read()
            src_nc = strip_comments(src)
            for m in FORBIDDEN.finditer(src_nc):
                w = m.group(1)
                if w in ("Variable", "Variables", "Hypothesis", "Hypotheses"):
                    # allowed inside a Section only
                    before = src_nc[:m.start()]
                    opened = len(re.findall(r"^\s*Section\s+\w+", before, re.M))
                    closed = len(re.findall(r"^\s*End\s+\w+\s*\.", before, re.M))
                    mods = len(re.findall(r"^\s*Module\s+(Type\s+)?\w+", before, re.M))
                    if opened - (closed - mods) > 0 and opened > 0:
                        continue
                bad.append("%s: %s" % (os.path.relpath(p, VERIF), w))
    return bad


def strip_comments(s: str) -> str:
    out, depth, i = [], 0, 0
    while i < len(s):
        if s.startswith("(*", i):
            depth += 1
            i += 2
        elif s.startswith("*)", i) and depth:
            depth -= 1
            i += 2
        else:
            if depth == 0:
                out.append(s[i])
            i += 1
    return "".join(out)


def build_all(log=None) -> None:
    """make the whole Coq development (incremental) and the OCaml driver, under a lock."""
    os.makedirs(os.path.join(VERIF, ".lock"), exist_ok=True)
    with open(os.path.join(VERIF, ".lock", "build"), "w") as lk:
        fcntl.flock(lk, fcntl.LOCK_EX)
        bad = scan_forbidden()
        if bad:
            raise BuildError("forbidden constructs in the Coq development: " + "; ".join(bad))
        if not os.path.exists(os.path.join(COQ, "Makefile")) or \
                os.path.getmtime(os.path.join(COQ, "_CoqProject")) > os.path.getmtime(os.path.join(COQ, "Makefile")):
            rc, out = sh("coq_makefile -f _CoqProject -o Makefile", cwd=COQ, timeout=120)
            if rc:
                raise BuildError("coq_makefile failed:\n" + out)
        rc, out = sh("timeout 3000 make -j%d 2>&1" % NPROC, cwd=COQ, timeout=3100)
        if log is not None:
            log.append(out)
        if rc:
            raise BuildError("Coq build failed:\n" + out[-3000:])
        drv = os.path.join(OCAML, "driver")
        srcs = [os.path.join(OCAML, f) for f in ("model.ml", "driver.ml")]
        if not os.path.exists(drv) or any(os.path.getmtime(s) > os.path.getmtime(drv) for s in srcs):
            rc, out = sh("timeout 600 ./build.sh", cwd=OCAML, timeout=700)
            if rc:
                raise BuildError("OCaml driver build failed:\n" + out[-3000:])


_STMT = re.compile(r"^\s*(Theorem|Lemma|Example|Corollary|Fact|Remark|Proposition)\s+(\w+)", re.M)


def count_statements(path: str) -> List[str]:
    src = strip_comments(open(path).read())
    names = [m.group(2) for m in _STMT.finditer(src)]
    return names


def deps_of(vfile: str) -> List[str]:
    """Transitive project-local dependencies of a .v file (via coqdep)."""
    seen, todo = [], [vfile]
    while todo:
        f = todo.pop()
        if f in seen:
            continue
        seen.append(f)
        rc, out = sh(["coqdep", "-Q", ".", "SE", f], cwd=COQ, timeout=60)
        for line in out.splitlines():
            if line.startswith(os.path.splitext(f)[0] + ".vo"):
                for tok in line.split(":", 1)[1].split():
                    if tok.endswith(".vo") and not tok.startswith("/"):
                        v = tok[:-1]
                        if os.path.exists(os.path.join(COQ, v)) and v not in seen and v != f:
                            todo.append(v)
    return seen


def check_props(pid: str) -> Dict[str, Any]:
    """Re-compile Props/<pid>.v (always), parse Print Assumptions, count obligations."""
    vfile = "Props/%s.v" % pid
    t0 = time.time()
    rc, out = sh(["timeout", "900", "coqc", "-Q", ".", "SE", vfile], cwd=COQ, timeout=1000)
    if rc:
        raise BuildError("Props/%s.v does not check:\n%s" % (pid, out[-3000:]))
    # parse assumptions
    blocks = re.split(r"(?m)^(?=Closed under the global context|Axioms:)", out)
    assumptions, closed, withax = set(), 0, 0
    for b in blocks:
        if b.startswith("Closed under"):
            closed += 1
        elif b.startswith("Axioms:"):
            withax += 1
            for line in b.splitlines()[1:]:
                m = re.match(r"^([\w.']+)\s*:", line)
                if m:
                    assumptions.add(m.group(1))
    foreign = sorted(a for a in assumptions if not ALLOWED_ASSUMPTION.match(a))
    if foreign:
        raise BuildError("Props/%s.v depends on assumptions outside the allow-list: %s" % (pid, foreign))
    files = deps_of(vfile)
    per_file = {f: count_statements(os.path.join(COQ, f)) for f in files}
    prop_thms = per_file.get(vfile, [])
    total = sum(len(v) for v in per_file.values())
    missing = [f for f in files if not os.path.exists(os.path.join(COQ, f + "o"))]
    discharged = sum(len(v) for f, v in per_file.items() if f not in missing)
    return {
        "obligations": total, "discharged": discharged,
        "property_theorems": prop_thms, "files": files,
        "print_assumptions_closed": closed, "print_assumptions_with_primitives": withax,
        "assumptions": sorted(assumptions), "coqc_s": round(time.time() - t0, 2),
    }


class Ctx:
    def __init__(self, pid: str, tier: str, seed: int):
        self.pid, self.tier, self.seed = pid, tier, seed
        self.rng = random.Random((seed << 8) ^ int(hashlib.sha1(pid.encode()).hexdigest()[:6], 16))
        self.evaluations = 0
        self.hashes = set()
        self.nontrivial = set()
        self.samples: List[Any] = []
        self.dist: Dict[str, int] = {}
        self.disagreements: List[Dict[str, Any]] = []   # model vs impl
        self.failures: List[Dict[str, Any]] = []        # property oracle failed on impl
        self.known: Dict[str, int] = {}
        self.notes: List[str] = []
        self.relations: Dict[str, int] = {}
        self.exhaustive = False
        self.t0 = time.time()
        self.known_findings = load_known_findings(pid)

    @property
    def quick(self):
        return self.tier == "quick"

    def count(self, kind: str, case: Any, nontrivial: bool = True, sample_every: int = 0):
        self.evaluations += 1
        self.dist[kind] = self.dist.get(kind, 0) + 1
        h = hashlib.blake2b(repr((kind, case)).encode(), digest_size=8).digest()
        if h not in self.hashes:
            self.hashes.add(h)
            if nontrivial:
                self.nontrivial.add(h)
        if len(self.samples) < 6 and self.dist[kind] in (1, 7):
            self.samples.append({"kind": kind, "case": _short(case)})

    def agree(self, relation: str, case: Any, impl: Any, model: Any) -> bool:
        """Record one correspondence comparison (model vs implementation)."""
        self.relations[relation] = self.relations.get(relation, 0) + 1
        if impl == model:
            return True
        if len(self.disagreements) < 50:
            self.disagreements.append({"relation": relation, "case": case, "impl": impl, "model": model})
        return False

    def require(self, what: str, case: Any, ok: bool, detail: Any = None, replay: Any = None) -> bool:
        """Record one evaluation of the property oracle on the implementation."""
        if ok:
            return True
        for kf in self.known_findings:
            if kf["match"](what, case, detail):
                self.known[kf["id"]] = self.known.get(kf["id"], 0) + 1
                return True
        if len(self.failures) < 50:
            self.failures.append({"what": what, "case": case, "detail": detail,
                                  "replay": replay if replay is not None else case})
        return False

    def note(self, s: str):
        self.notes.append(s)

    # ---- parallel workers: each builds its own Ctx, returns dump(); parent merges ----
    def dump(self) -> Dict[str, Any]:
        return {"evaluations": self.evaluations, "hashes": self.hashes, "nontrivial": self.nontrivial,
                "samples": self.samples, "dist": self.dist, "disagreements": self.disagreements,
                "failures": self.failures, "known": self.known, "relations": self.relations, "notes": self.notes}

    def merge(self, d: Dict[str, Any]):
        self.evaluations += d["evaluations"]
        self.hashes |= d["hashes"]
        self.nontrivial |= d["nontrivial"]
        for s_ in d["samples"]:
            if len(self.samples) < 8:
                self.samples.append(s_)
        for k, v in d["dist"].items():
            self.dist[k] = self.dist.get(k, 0) + v
        for k, v in d["relations"].items():
            self.relations[k] = self.relations.get(k, 0) + v
        for k, v in d["known"].items():
            self.known[k] = self.known.get(k, 0) + v
        self.disagreements += d["disagreements"][:50 - len(self.disagreements)] if len(self.disagreements) < 50 else []
        self.failures += d["failures"][:50 - len(self.failures)] if len(self.failures) < 50 else []
        for n in d["notes"]:
            if n not in self.notes:
                self.notes.append(n)


class Unavailable(Exception):
    """an internal (underscore) name of the implementation that a function-level relation looks at is not there any more:
    that relation is skipped (noted in the evidence); the end-to-end relations of the property remain"""


def private(obj, name):
    try:
        return getattr(obj, name)
    except AttributeError:
        raise Unavailable("%s.%s" % (type(obj).__name__, name))


def pmap(ctx: "Ctx", worker: Callable, jobs: List[Any], procs: int = 0):
    """Run worker(job_args) -> Ctx.dump() in a fork pool and merge into ctx.
    `worker` must be a module-level function taking (pid, tier, seed, job)."""
    import multiprocessing as mp
    procs = procs or min(NPROC, max(1, len(jobs)))
    args = [(ctx.pid, ctx.tier, ctx.seed, j) for j in jobs]
    if procs == 1 or len(jobs) == 1:
        for a in args:
            ctx.merge(worker(*a))
        return
    with mp.get_context("fork").Pool(procs) as pool:
        for d in pool.starmap(worker, args, chunksize=1):
            ctx.merge(d)


def _short(x, n=400):
    s = repr(x)
    if len(s) <= n:
        try:
            json.dumps(x)
            return x
        except Exception:
            return s
    return s[:n] + "..."


def _jsonable(x):
    if isinstance(x, (bytes, bytearray)):
        return {"hex": bytes(x).hex()}
    if isinstance(x, dict):
        return {str(k): _jsonable(v) for k, v in x.items()}
    if isinstance(x, (list, tuple)):
        return [_jsonable(v) for v in x]
    if isinstance(x, (int, float, str, bool)) or x is None:
        return x
    return repr(x)


def load_known_findings(pid: str):
    """known_findings.json entries for this property -> matcher objects."""
    path = os.path.join(VERIF, "known_findings.json")
    out = []
    if not os.path.exists(path):
        return out
    data = json.load(open(path))
    import known_matchers
    for e in data.get("known", []):
        if pid in e["properties"]:
            out.append({"id": e["id"], "what": e["what_fails"], "match": getattr(known_matchers, e["matcher"])})
    return out


def finish(ctx: Ctx, proof: Optional[Dict[str, Any]], build_error: Optional[str], level="proof") -> int:
    os.makedirs(os.path.join(VERIF, "evidence"), exist_ok=True)
    os.makedirs(os.path.join(VERIF, "replays"), exist_ok=True)
    pid = ctx.pid
    rc = 0
    lines = []
    for kf in ctx.known_findings:
        # a listed finding is announced on every run (the generators keep producing it)
        lines.append("KNOWN-FINDING: property=%s %s%s" % (
            pid, kf["what"], " (reproduced %d times in this run)" % ctx.known[kf["id"]] if kf["id"] in ctx.known else " (not exercised by this tier's cases)"))
    replay_path = None
    if ctx.failures:
        f = ctx.failures[0]
        replay_path = os.path.join(VERIF, "replays", "%s-%s.json" % (pid, hashlib.sha1(repr(f).encode()).hexdigest()[:10]))
        json.dump({"property": pid, "kind": "property-violated-on-implementation", "what": f["what"],
                   "case": _jsonable(f["replay"]), "detail": _jsonable(f["detail"]), "seed": ctx.seed, "tier": ctx.tier,
                   "other_failures": len(ctx.failures) - 1,
                   "replay_cmd": "./check %s --replay %s" % (pid, replay_path)}, open(replay_path, "w"), indent=1)
        lines.append("VIOLATION property=%s replay=%s" % (pid, replay_path))
        rc = 1
    elif ctx.disagreements or build_error:
        what = {"property": pid, "seed": ctx.seed, "tier": ctx.tier}
        if build_error:
            what.update(kind="proof-or-tie-no-longer-checks", broken=build_error[-4000:])
        if ctx.disagreements:
            d = ctx.disagreements[0]
            what.update(kind=what.get("kind", "correspondence-broken"),
                        relation=d["relation"], case=_jsonable(d["case"]), impl=_jsonable(d["impl"]), model=_jsonable(d["model"]),
                        n_disagreements=len(ctx.disagreements),
                        note="model and implementation differ on this case, but the property oracle found no failing input in this run")
        replay_path = os.path.join(VERIF, "replays", "%s-%s.json" % (pid, hashlib.sha1(repr(what).encode()).hexdigest()[:10]))
        json.dump(what, open(replay_path, "w"), indent=1)
        lines.append("VIOLATION property=%s replay=%s no-failing-input-found" % (pid, replay_path))
        rc = 1
    cov: Dict[str, Any] = {
        "evaluations": ctx.evaluations,
        "distinct_nontrivial": len(ctx.nontrivial),
        "rule": RULES.get(pid, "cases are hashed after canonicalisation; a case is non-trivial when it exercises the modelled behaviour (see distribution)"),
        "samples": ctx.samples or [{"note": "no sample recorded"}],
        "distribution": ctx.dist,
        "correspondence_relations": ctx.relations,
        "traces_validated_against_impl": sum(ctx.relations.values()),
        "disagreements": len(ctx.disagreements),
        "exhaustive": ctx.exhaustive,
        "trusted_base": TRUSTED_BASE,
        "checker_cmd": "cd /verif/coq && make && coqc -Q . SE Props/%s.v   (then ./check %s)" % (pid, pid),
        "notes": ctx.notes,
    }
    if proof:
        cov.update(obligations=proof["obligations"], discharged=proof["discharged"],
                   property_theorems=proof["property_theorems"], proof_files=proof["files"],
                   print_assumptions={"closed_under_global_context": proof["print_assumptions_closed"],
                                      "with_kernel_primitives_only": proof["print_assumptions_with_primitives"],
                                      "names": proof["assumptions"]})
    else:
        cov.update(obligations=0, discharged=0)
    ev = {
        "property_id": pid, "tier": ctx.tier, "seed": ctx.seed, "level": level,
        "coverage": cov,
        "assumptions": TRUSTED_BASE + ctx.notes,
        "wall_s": round(time.time() - ctx.t0, 2),
        "violations": len(ctx.failures) + (1 if (rc and not ctx.failures) else 0),
        "known_findings_reproduced": ctx.known,
    }
    if not proof or proof["obligations"] == 0:
        # schema: proof level wants obligations >= 1; fall back to generic keys (present anyway)
        ev["coverage"].pop("obligations", None)
        ev["coverage"].pop("discharged", None)
    json.dump(ev, open(os.path.join(VERIF, "evidence", "%s.json" % pid), "w"), indent=1)
    for ln in lines:
        print(ln)
    print("%s tier=%s seed=%d evaluations=%d distinct=%d relations=%s obligations=%s wall=%.1fs -> %s" % (
        pid, ctx.tier, ctx.seed, ctx.evaluations, len(ctx.nontrivial), ctx.relations,
        proof["obligations"] if proof else None, time.time() - ctx.t0, "FAIL" if rc else "ok"))
    return rc


RULES: Dict[str, str] = {}
