"""Predicates over *cases* for the entries of /verif/known_findings.json.
Each takes (what, case, detail) as passed to Ctx.require and says whether this failure is
exactly the listed finding (so that a different failure of the same property is still a
violation)."""


def never(what, case, detail):
    return False


def akai_chain_head_not_lowest(what, case, detail):
    """D4: AKAI SAT decoding discovers chains from their lowest sector; a well-formed chain
    whose first sector is not its lowest loses the part before the lowest sector."""
    return what == "AKAI well-formed chain resolves exactly" and isinstance(case, dict) \
        and case.get("head_is_lowest") is False


def akai_dir_run_reaches_table_end(what, case, detail):
    """D11: a reserved-flag run that includes the very last SAT entry is never installed."""
    return what == "AKAI directory run resolves exactly" and isinstance(case, dict) \
        and case.get("run_reaches_table_end") is True


def stereo_stem_collision(what, case, detail):
    """D6: a merged stereo pair is named after its stem, which equals another output name of
    the same directory (a sibling called like the stem, or a second pair with the same stem
    and a different separator)."""
    return isinstance(case, dict) and case.get("d6_shape") is True and what in (
        "output file names of one directory pairwise distinct",
        "number of files on disk equals number of Exported lines (no two samples to one path)")


def akai_empty_window(what, case, detail):
    """D13: an AKAI sample whose start marker equals its end marker (empty window) inside a
    non-empty file is exported from the start marker to the end of the file: a data window of
    size 0 makes StreamWrapper read unclipped (end_of_file == 0 means 'no limit')."""
    return what == "PCM is byte-identical to the words between the start and end markers" and isinstance(case, dict) \
        and case.get("empty_window_in_nonempty_file") is True


def akai_zone_arrays_shift(what, case, detail):
    """D12: the three per-zone arrays of an AKAI keygroup (key tracking, aux output offset,
    velocity to sample start) are cut to the first num_active entries, while the listed zones
    are the NON-EMPTY slots: with an empty slot stored before a non-empty one the listed zone
    shows another slot's values."""
    return what == "per-zone key tracking / aux output / sample start values are those of the zone's own slot" \
        and isinstance(case, dict) and case.get("zone_gap") is True


def akai_entry_endflag(what, case, detail):
    """D14: the damaged entry's bytes 8-9 are the end-of-table mark 47 D7."""
    return isinstance(case, dict) and case.get("endflag_in_name") is True and what in (
        "every other item of the directory is still listed under its original name",
        "every other item's audio is still exported unchanged")


def akai_entry_namesake(what, case, detail):
    """D15: the damaged name now equals / L-R-pairs with a sibling's name."""
    return isinstance(case, dict) and case.get("namesake") is True and what in (
        "every other item of the directory is still listed under its original name",
        "every other item's audio is still exported unchanged")


def akai_unencodable_tuning(what, case, detail):
    """D16: root key + tuning offset below MIDI note 0 cannot be written to the smpl chunk:
    that one sample is reported as failed and not written (every other sample is)."""
    return isinstance(case, dict) and case.get("only_unencodable_missing") is True and \
        what == "exactly one WAV per sample / per L-R pair at <partition>/<volume>/<name>.wav, nothing else"


def fir_history_from_new_block_only(what, case, detail):
    """D9: FirFilter.process keeps x[-(N-1):] of the NEW block only: a FIR filter (generic, ChickenSys
    custom, or the two FIR presets) fed a block shorter than N-1 loses history (split output / sample
    count differ), and a one-tap FIR keeps the whole block (x[-0:]) so the flush repeats it.  Only the
    split-independence and sample-count checks are excused, and only on such a case."""
    return isinstance(case, dict) and case.get("d9_shape") is True and what in (
        "block-wise output followed by flush equals one-block output followed by flush",
        "number of output samples equals number of input samples")


def truncated_pair_half(what, case, detail):
    """D17: the cut removes one half of an L/R pair; the surviving half is exported under its own name."""
    return what == "every reported file is also reported for the complete image" and isinstance(case, dict) \
        and case.get("unpaired_half") is True
