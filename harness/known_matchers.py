"""Predicates over *cases* for the entries of /verif/known_findings.json.
Each takes (what, case, detail) as passed to Ctx.require and says whether this failure is
exactly the listed finding (so that a different failure of the same property is still a
violation)."""


def never(what, case, detail):
    return False
