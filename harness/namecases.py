"""Sibling-name multisets biased towards near-collisions (C05 / C06 / C10)."""
import itertools
import random

STEMS_AKAI = ["A", "A.WAV", "AB", "B", "PAD", "A 1", "A+1", "A.", "A-", "0", "#1", "A (2)", "B (2)", "..", ".", "-", "L", "R", "A  B"]
SUFFIXES = ["", " L", " R", "-L", "-R", "  L", " -R", "--L", "- R", "L", "R", " (2)", " (2) L", " (3)"]
HOSTILE = ["Intro", "Intro.wav", "Intro.WAV", "x.wav.wav", ".wav", "..", "../x", "a/b", "a\\b", "a\\\\b", "C:\\x", "'q'", 'x"y', "a\tb", "\x01\x02", "a:b", ":a", "a:", "::", " lead", "trail ",
           "a..", "a. .", "a .", "-x", ".x", "x-", "x.", "~", "", " ", "a`b", "é".encode("latin-1").decode("latin-1"), "CON", "a*b?", "<x>|", "a=b", "x@y", "a&b"]


def akai_ok(name):
    from akai_writer import _AKAI_CHARS
    return len(name) <= 12 and all(c in _AKAI_CHARS for c in name.upper())


def vocab(akai=False):
    v = []
    for s in STEMS_AKAI:
        for x in SUFFIXES:
            n = s + x
            if not akai or akai_ok(n):
                v.append(n if not akai else n.upper())
    if not akai:
        v += HOSTILE
        v += [h + " L" for h in HOSTILE[:8]] + [h + " R" for h in HOSTILE[:8]]
    out, seen = [], set()
    for n in v:
        if n not in seen:
            seen.add(n)
            out.append(n)
    return out


def multisets(rng, voc, k, count):
    """count random sibling lists of length k (with repetition, every order possible)."""
    for _ in range(count):
        base = rng.choice(voc)
        near = [n for n in voc if n.replace(" ", "").replace("-", "")[:2] == base.replace(" ", "").replace("-", "")[:2]] or voc
        yield [rng.choice(near) if rng.random() < 0.7 else rng.choice(voc) for _ in range(k)]


def exhaustive_small(voc, k):
    return itertools.product(voc, repeat=k)


# ---- independent oracle for stereo pairing, from the property text -------------------
SEP = set(" \t\n\r\x0b\x0c\x1c\x1d\x1e\x1f-")


def split_stereo(name):
    """name = stem + sep + side with side in L/R preceded by one or more spaces/hyphens;
    the stem is what is left after removing ALL trailing separators. None if not of that form."""
    n = name.rstrip(" \t\n\r\x0b\x0c\x1c\x1d\x1e\x1f")
    if not n or n[-1] not in "LR":
        return None
    body = n[:-1]
    i = len(body)
    while i > 0 and body[i - 1] in SEP:
        i -= 1
    if i == len(body):
        return None
    if "\n" in body[:i]:
        return None
    return body[:i], body[i:], n[-1]


def expected_pairs(names):
    """For DISTINCT sibling names: list of outputs (name, [indices in channel order])."""
    idx = {n: i for i, n in enumerate(names)}
    used, out = set(), []
    for i, n in enumerate(names):
        if i in used:
            continue
        sp = split_stereo(n)
        if sp:
            stem, sep, side = sp
            other = stem + sep + ("R" if side == "L" else "L")
            j = idx.get(other)
            if j is not None and j not in used and j != i:
                used.update((i, j))
                out.append((stem, [i, j] if side == "L" else [j, i]))
                continue
        used.add(i)
        out.append((n, [i]))
    return out


def d6_shape(names):
    """Known finding D6: a merged stereo stem equals another output name of the directory."""
    outs = expected_pairs(names)
    seen = {}
    for nm, src in outs:
        seen.setdefault(nm, []).append(src)
    return any(len(v) > 1 and any(len(s) == 2 for s in v) for v in seen.values())


ALLOWED_EXPORT = set("abcdefghijklmnopqrstuvwxyzABCDEFGHIJKLMNOPQRSTUVWXYZ0123456789_ -.#()")


def component_ok(c):
    word = set("abcdefghijklmnopqrstuvwxyzABCDEFGHIJKLMNOPQRSTUVWXYZ0123456789_")
    return len(c) > 0 and all(ch in ALLOWED_EXPORT for ch in c) and c[0] in word and c[-1] not in " ." and c not in (".", "..")
