"""Client of the extracted Coq model (ocaml/driver): s-expression marshalling."""
from __future__ import annotations
import math
import os
import re
import subprocess
from typing import Any, List

VERIF = os.path.dirname(os.path.dirname(os.path.abspath(__file__)))
DRIVER = os.path.join(VERIF, "ocaml", "driver")
DRIVER_V = os.path.join(VERIF, "coq", "Driver.v")

_ids = None


def fn_ids():
    global _ids
    if _ids is None:
        _ids = {}
        import glob
        for path in sorted(glob.glob(os.path.join(VERIF, "coq", "Driver*.v"))):
            for m in re.finditer(r"\|\s*(\d+)\s*\(\*\s*(\w+)\s*\*\)", open(path).read()):
                _ids[m.group(2)] = int(m.group(1))
    return _ids


def enc(v: Any) -> str:
    if isinstance(v, Raw):
        return str(v)
    if isinstance(v, bool):
        return "1" if v else "0"
    if isinstance(v, int):
        return str(v)
    if isinstance(v, (bytes, bytearray)):
        return "(" + " ".join(str(b) for b in v) + ")"
    if isinstance(v, str):
        return "(" + " ".join(str(ord(c)) for c in v) + ")"
    if isinstance(v, float):
        return enc_float(v)
    if v is None:
        return "()"
    return "(" + " ".join(enc(x) for x in v) + ")"


def enc_float(f: float) -> str:
    if f != f:
        return "(3)"
    s = 1 if math.copysign(1.0, f) < 0 else 0
    if f == 0:
        return "(1 %d)" % s
    if math.isinf(f):
        return "(2 %d)" % s
    m, e = math.frexp(abs(f))          # abs(f) = m * 2**e, 0.5 <= m < 1
    mi = int(m * (1 << 53))
    e -= 53
    while mi % 2 == 0:
        mi //= 2
        e += 1
    return "(0 %d %d %d)" % (s, mi, e)


def dec_float(v) -> float:
    k = v[0]
    if k == 3:
        return float("nan")
    s = -1.0 if v[1] else 1.0
    if k == 1:
        return s * 0.0
    if k == 2:
        return s * float("inf")
    return s * math.ldexp(float(v[2]), v[3])


_tok = re.compile(r"\(|\)|-?\d+")


def dec(s: str):
    stack = [[]]
    for t in _tok.findall(s):
        if t == "(":
            stack.append([])
        elif t == ")":
            x = stack.pop()
            stack[-1].append(x)
        else:
            stack[-1].append(int(t))
    return stack[0][0]


def _unlimit_stack():
    import resource
    try:
        resource.setrlimit(resource.RLIMIT_STACK, (resource.RLIM_INFINITY, resource.RLIM_INFINITY))
    except Exception:
        pass


def enc_image(data: bytes) -> str:
    """sparse encoding of a (mostly zero) image for the model: (len (off (bytes)) ...)"""
    out = [str(len(data))]
    i, n = 0, len(data)
    mv = memoryview(data)
    import re as _re
    for m in _re.finditer(rb"[^\x00]+(?:\x00{1,15}[^\x00]+)*", data):
        out.append("(%d (%s))" % (m.start(), " ".join(map(str, m.group()))))
    return "(" + " ".join(out) + ")"


class Raw(str):
    """an argument that is already encoded"""


def enc_image_runs(data: bytes, max_run: int = 1024) -> str:
    """as enc_image, with every run split into pieces of at most max_run bytes (a model that
    reads the runs in place - coq/RolandImage.v sparse_rd - then never skips far inside one)"""
    out = [str(len(data))]
    import re as _re
    for m in _re.finditer(rb"[^\x00]+(?:\x00{1,15}[^\x00]+)*", data):
        a, b = m.start(), m.end()
        for o in range(a, b, max_run):
            out.append("(%d (%s))" % (o, " ".join(map(str, data[o:min(b, o + max_run)]))))
    return "(" + " ".join(out) + ")"


class ModelTimeout(Exception):
    pass


def call_batch(fn: str, args: List[Any], chunk: int = 20000, timeout: int = 1800) -> List[Any]:
    """Evaluate model function `fn` on every argument (one driver process per chunk)."""
    fid = fn_ids()[fn]
    out: List[Any] = []
    for i in range(0, len(args), chunk):
        lines = "".join("%d %s\n" % (fid, enc(a)) for a in args[i:i + chunk])
        try:
            p = subprocess.run([DRIVER], input=lines.encode(), stdout=subprocess.PIPE,
                               stderr=subprocess.PIPE, timeout=timeout, preexec_fn=_unlimit_stack)
        except subprocess.TimeoutExpired:
            raise ModelTimeout("model driver: %s took more than %d s" % (fn, timeout))
        if p.returncode != 0:
            raise RuntimeError("model driver failed: " + p.stderr.decode()[:500])
        res = p.stdout.decode().splitlines()
        if len(res) != len(args[i:i + chunk]):
            raise RuntimeError("model driver returned %d lines for %d cases" % (len(res), len(args[i:i + chunk])))
        out.extend(dec(r) for r in res)
    return out


def call_mixed(calls: List[tuple]) -> List[Any]:
    """calls = [(fn, arg), ...] evaluated in one driver process."""
    ids = fn_ids()
    lines = "".join("%d %s\n" % (ids[f], enc(a)) for f, a in calls)
    p = subprocess.run([DRIVER], input=lines.encode(), stdout=subprocess.PIPE,
                       stderr=subprocess.PIPE, timeout=1800, preexec_fn=_unlimit_stack)
    if p.returncode != 0:
        raise RuntimeError("model driver failed: " + p.stderr.decode()[:500])
    return [dec(r) for r in p.stdout.decode().splitlines()]


# result helpers: (0 v) ok | (1 code) error | (2) out of fuel
EXN = {1: "RequestedInvalidSector", 2: "InvalidFatDefinition", 3: "ConstructError", 4: "IndexError",
       5: "BadReadSize", 6: "BadAlign", 7: "SectorReadError", 8: "AttemptToReadBeyondBuffer",
       9: "InvalidCharacter", 10: "KeyError", 11: "ValueError", 12: "BadCueSheet", 13: "error",
       14: "NoDataStream", 15: "IncompatibleNumberOfChannels", 16: "CouldNotDetermineName",
       17: "ErrorInvalidPath", 18: "StructError", 19: "OverflowError", 20: "AssertionError"}


def res(v):
    """-> ('ok', value) | ('err', exception class name) | ('fuel',)"""
    if v[0] == 0:
        return ("ok", v[1])
    if v[0] == 1:
        return ("err", EXN.get(v[1], str(v[1])))
    return ("fuel",)


def impl_res(f, *a, classes=None):
    """Run implementation callable, canonicalise to the same shape as `res`."""
    try:
        return ("ok", f(*a))
    except Exception as e:  # noqa
        n = type(e).__name__
        for c in type(e).__mro__:
            if c.__name__ in set(EXN.values()):
                n = c.__name__
                break
        return ("err", n)
