"""Independent Roland S-7xx hard-disk image writer.

Written from the on-disc format (area offsets, record sizes, pointer lists, FAT words) and
*not* from smpl_extract code: it imports nothing from /repo.  A logical model

    Disk -> volumes -> performances -> patches -> partials -> (<= 4) samples

with *indexed* tables (so that entries can be shared between parents, or referenced by no
parent at all = orphaned) plus an allocation (which clusters, in which order, each sample
occupies) is serialised to bytes; `expected_export` gives what property C02 says `export`
must produce for it:

    {"<volume>/<performance>/<sample>.wav": (channels, rate, pcm bytes)}

Format summary (all little endian; byte offsets from the start of the image):

  0x000000  id area (0x200): u32 revision, "S770 MR25A"(10)+2, 15+1 empty, version text
            (31)+1, copyright text (31)+1, 160 pad, disk name (16), u32 capacity,
            u16 #volumes, #performances, #patches, #partials, #samples
  0x080800  FAT: 65536 x u16.  [0] = 0xFFFA id, [1] = free clusters, [N-2],[N-1] = version
            flags (0xFFFF = version 1, 0xFFFE = version 2); otherwise 0 free, 1 reserved,
            0xFFF7 error, >= 0xFFF8 end of chain, else number of the next cluster
  directory areas (32-byte entries)         parameter areas
  0x0A0800  volume       (128)              0x10D800  volume       0x100 each
  0x0A1800  performance  (512)              0x115800  performance  0x200
  0x0A5800  patch        (1024)             0x155800  patch        0x200
  0x0AD800  partial      (4096)             0x1D5800  partial      0x80
  0x0CD800  sample       (8192)             0x255800  sample       0x30
  0x2B1000 + c * 0x2400   cluster c (c >= 2; cluster 2 is the first of the data area)

  directory entry: name[16], u8 type (0x40 volume .. 0x44 sample), u8 attributes,
            u16 forward link, u16 backward link (both + 0x8000 on a version-2 disk),
            u16 link id, u32 reserved, u16 first cluster, u16 number of clusters
  volume parameter:      name[16], 16 pad, 64 x i16 performance numbers (-1 = unused)
  performance parameter: name[16], 240 bytes of part settings, 32 x i16 patch numbers
  patch parameter:       name[16], 240 bytes of settings, 88 x i16 partial numbers (per key)
  partial parameter:     name[16], four 11-byte sample sections at 16, 32, 48, 64, each
            beginning with an i16 sample number (-1 = unused)
  sample parameter:      name[16], 5 x u32 points (address << 8 | fine): start, sustain
            start, sustain end, release start, release end; u8 loop mode (0..6), 3 x u8,
            u16 cluster_top (leading clusters to skip), u16 #clusters,
            u8 (mode << 4 | frequency code), u8 original key, 2 pad
"""
from __future__ import annotations
import struct
from dataclasses import dataclass, field
from typing import Callable, Dict, List, Optional, Tuple

CLUSTER = 0x2400                 # 9216 bytes = 18 blocks of 512
WORDS_PER_CLUSTER = CLUSTER // 2
FAT_OFFSET = 0x80800
FAT_ENTRIES = 0x10000
CLUSTER0_OFFSET = 0x2B1000       # byte address of (virtual) cluster 0
FIRST_CLUSTER = 2
LAST_CLUSTER = FAT_ENTRIES - 10  # the sampler never allocates the last entries

DIR_ENTRY = 0x20
VOLUME, PERFORMANCE, PATCH, PARTIAL, SAMPLE = "volume", "performance", "patch", "partial", "sample"
#              directory area, capacity, parameter area, parameter size, type byte
AREAS = {
    VOLUME:      (0x0A0800, 0x80,   0x10D800, 0x100, 0x40),
    PERFORMANCE: (0x0A1800, 0x200,  0x115800, 0x200, 0x41),
    PATCH:       (0x0A5800, 0x400,  0x155800, 0x200, 0x42),
    PARTIAL:     (0x0AD800, 0x1000, 0x1D5800, 0x80,  0x43),
    SAMPLE:      (0x0CD800, 0x2000, 0x255800, 0x30,  0x44),
}
MIN_IMAGE_SIZE = 0x2B5800        # end of the sample parameter area = start of cluster 2

FAT_ID, FAT_FREE, FAT_RESERVED, FAT_ERROR, FAT_END = 0xFFFA, 0x0000, 0x0001, 0xFFF7, 0xFFFF
FAT_V1_FLAG, FAT_V2_FLAG = 0xFFFF, 0xFFFE

# loop modes
FORWARD_END, FORWARD_RELEASE, ONESHOT, FORWARD_ONESHOT, ALTERNATE, REVERSE_ONESHOT, REVERSE_LOOP = range(7)
LOOP_MODES = list(range(7))
END_AT_RELEASE = (FORWARD_RELEASE, FORWARD_ONESHOT)       # data runs to the release-loop end
REVERSED = (REVERSE_ONESHOT, REVERSE_LOOP)                # data is played (exported) backwards
FREQUENCIES = {0: 48000, 1: 44100, 2: 24000, 3: 22050, 4: 30000, 5: 15000}

ORPHAN_VOLUME = "_Orphan_perf"        # pseudo volume shown for performances no volume lists
ALL_PERFORMANCES = "All Performances"  # ... when the disk has no volume at all


def name16(s: str, n: int = 16) -> bytes:
    b = s.encode("ascii")
    assert len(b) <= n, s
    return b + bytes(n - len(b))


@dataclass
class Sample:
    """`pcm` is the sample's audio (16-bit little-endian words) as addressed by the loop
    points, i.e. the content of the cluster chain *after* the `cluster_top` leading
    clusters, which hold `lead` (default: a recognisable filler)."""
    name: str
    pcm: bytes = b""
    start: int = 0
    sustain_start: int = 0
    sustain_end: Optional[int] = None        # default: last word
    release_start: int = 0
    release_end: Optional[int] = None        # default: last word
    fines: Tuple[int, int, int, int, int] = (0, 0, 0, 0, 0)   # fine parts (0..255) of the 5 points
    loop_mode: int = FORWARD_END
    freq_code: int = 1
    cluster_top: int = 0
    chain: Optional[List[int]] = None        # whole chain incl. leading clusters; allocator fills it
    lead: Optional[bytes] = None             # content of the cluster_top leading clusters
    tail_fill: int = 0xEE                    # fills the unused rest of the last cluster
    original_key: int = 60
    sample_mode: int = 0                     # 0 mono
    dir_num_clusters: Optional[int] = None   # directory field (default: chain length)
    par_num_clusters: Optional[int] = None   # parameter field (default: chain length - cluster_top)
    par_name: Optional[str] = None           # name in the parameter record (default: same)
    extra_clusters: int = 0                  # unused clusters appended to the chain

    @property
    def n_words(self) -> int:
        return len(self.pcm) // 2

    def points(self) -> Tuple[int, int, int, int, int]:
        last = max(0, self.n_words - 1)
        return (self.start, self.sustain_start,
                last if self.sustain_end is None else self.sustain_end,
                self.release_start,
                last if self.release_end is None else self.release_end)

    def clusters_needed(self) -> int:
        return self.cluster_top + max(1, -(-len(self.pcm) // CLUSTER)) + self.extra_clusters

    def end_point(self) -> int:
        p = self.points()
        return p[4] if self.loop_mode in END_AT_RELEASE else p[2]

    def window(self) -> bytes:
        """The property's PCM: words start..end point of the loop mode, reversed in time for
        the two reverse modes."""
        s, e = self.start, self.end_point()
        words = self.pcm[2 * s: 2 * (e + 1)]
        if self.loop_mode in REVERSED:
            words = b"".join(words[i:i + 2] for i in range(len(words) - 2, -1, -2))
        return words

    def rate(self) -> int:
        return FREQUENCIES[self.freq_code]


@dataclass
class Partial:
    name: str
    samples: List[int] = field(default_factory=list)      # sample numbers, <= 4 (slot order); -1 = empty slot


@dataclass
class Patch:
    name: str
    partials: List[int] = field(default_factory=list)     # partial numbers (one per key, <= 88; repeats allowed)


@dataclass
class Performance:
    name: str
    patches: List[int] = field(default_factory=list)      # patch numbers (<= 32)


@dataclass
class Volume:
    name: str
    performances: List[int] = field(default_factory=list)  # performance numbers (<= 64)


@dataclass
class Disk:
    """Tables are {number: entry}.  Volumes must be numbered 0..n-1 (the id area only
    stores their count).  Entries referenced by nobody are simply present in their table."""
    volumes: Dict[int, Volume] = field(default_factory=dict)
    performances: Dict[int, Performance] = field(default_factory=dict)
    patches: Dict[int, Patch] = field(default_factory=dict)
    partials: Dict[int, Partial] = field(default_factory=dict)
    samples: Dict[int, Sample] = field(default_factory=dict)
    fat_version: int = 1
    version_flags: Optional[Tuple[int, int]] = None   # override the two FAT version words
    name: str = "VERIF DISK"
    fat_overrides: Dict[int, int] = field(default_factory=dict)
    patches_raw: Dict[Tuple[str, int, int], bytes] = field(default_factory=dict)  # (kind|'abs', number, offset) -> bytes
    min_size: int = 0

    # ---- convenience builders (return the number assigned) ----
    def add(self, kind: str, obj, number: Optional[int] = None) -> int:
        tbl = {VOLUME: self.volumes, PERFORMANCE: self.performances, PATCH: self.patches,
               PARTIAL: self.partials, SAMPLE: self.samples}[kind]
        if number is None:
            number = 0
            while number in tbl:
                number += 1
        assert number not in tbl and 0 <= number < AREAS[kind][1]
        tbl[number] = obj
        return number


class Allocator:
    """Hands out clusters.  `order(free, n)` returns n clusters from the free list in the
    order the chain shall have (contiguous, reversed, shuffled, interleaved ...)."""

    def __init__(self, first: int = FIRST_CLUSTER, count: int = 64,
                 order: Optional[Callable[[List[int], int], List[int]]] = None):
        self.free = list(range(first, first + count))
        self.order = order or (lambda free, n: free[:n])

    def take(self, n: int) -> List[int]:
        got = list(self.order(list(self.free), n))
        assert len(got) == n and len(set(got)) == n, (n, got)
        for c in got:
            self.free.remove(c)
        return got

    def reserve(self, clusters):
        for c in clusters:
            if c in self.free:
                self.free.remove(c)


def allocate(disk: Disk, alloc: Optional[Allocator] = None) -> None:
    """Give every sample without an explicit chain one from the allocator."""
    need = sum(s.clusters_needed() for s in disk.samples.values() if s.chain is None)
    alloc = alloc or Allocator(count=need + 8 + sum(len(s.chain) for s in disk.samples.values() if s.chain))
    for s in disk.samples.values():
        if s.chain is not None:
            alloc.reserve(s.chain)
    for k in sorted(disk.samples):
        s = disk.samples[k]
        if s.chain is None:
            s.chain = alloc.take(s.clusters_needed())


def _dir_entry(name: str, type_byte: int, v2: bool, first_cluster: int = 0, n_clusters: int = 0) -> bytes:
    link = 0x8000 if v2 else 0
    e = name16(name) + struct.pack("<BBHHHIHH", type_byte, 0, link, link, 0, 0, first_cluster, n_clusters)
    assert len(e) == DIR_ENTRY
    return e


def _ptrs(lst: List[int], n: int) -> bytes:
    assert len(lst) <= n, (len(lst), n)
    return struct.pack("<%dh" % n, *(list(lst) + [-1] * (n - len(lst))))


def image_bytes(disk: Disk, alloc: Optional[Allocator] = None) -> bytes:
    allocate(disk, alloc)
    v2 = disk.fat_version == 2
    assert sorted(disk.volumes) == list(range(len(disk.volumes))), "volumes are numbered 0..n-1"
    top = max([FIRST_CLUSTER] + [c for s in disk.samples.values() for c in s.chain])
    size = max(MIN_IMAGE_SIZE, CLUSTER0_OFFSET + (top + 1) * CLUSTER, disk.min_size)
    img = bytearray(size)

    def put(off: int, data: bytes):
        assert off + len(data) <= size
        img[off:off + len(data)] = data

    def put_record(kind: str, number: int, name: str, par: bytes, first_cluster=0, n_clusters=0):
        d_off, cap, p_off, p_size, tbyte = AREAS[kind]
        assert 0 <= number < cap, (kind, number)
        assert len(par) <= p_size, (kind, len(par))
        put(d_off + DIR_ENTRY * number, _dir_entry(name, tbyte, v2, first_cluster, n_clusters))
        put(p_off + p_size * number, par + bytes(p_size - len(par)))

    # ---- id area ----
    ida = struct.pack("<I", 1) + name16("S770 MR25A", 10) + bytes(2) + bytes(16) \
        + name16("S-770 Hard Disk Ver. 1.00", 31) + bytes(1) \
        + name16("Copyright Roland", 31) + bytes(1) + bytes(160) + name16(disk.name) \
        + struct.pack("<IHHHHH", size, len(disk.volumes), len(disk.performances), len(disk.patches),
                      len(disk.partials), len(disk.samples))
    assert len(ida) == 286
    put(0, ida)

    # ---- FAT ----
    fat = [FAT_FREE] * FAT_ENTRIES
    used = 0
    for s in disk.samples.values():
        ch = s.chain
        assert len(set(ch)) == len(ch) and len(ch) >= 1
        for c in ch:
            assert FIRST_CLUSTER <= c <= LAST_CLUSTER and fat[c] == FAT_FREE, ("cluster used twice or out of range", c)
        for a, b in zip(ch, ch[1:]):
            fat[a] = b
        fat[ch[-1]] = FAT_END
        used += len(ch)
    fat[0] = FAT_ID
    fat[1] = max(0, (top - FIRST_CLUSTER + 1) - used)
    flags = disk.version_flags or ((FAT_V2_FLAG, FAT_V2_FLAG) if v2 else (FAT_V1_FLAG, FAT_V1_FLAG))
    fat[FAT_ENTRIES - 2], fat[FAT_ENTRIES - 1] = flags
    for k, w in disk.fat_overrides.items():
        fat[k] = w
    put(FAT_OFFSET, struct.pack("<%dH" % FAT_ENTRIES, *fat))

    # ---- records ----
    for n, v in disk.volumes.items():
        put_record(VOLUME, n, v.name, name16(v.name) + bytes(16) + _ptrs(v.performances, 64))
    for n, p in disk.performances.items():
        put_record(PERFORMANCE, n, p.name, name16(p.name) + bytes(240) + _ptrs(p.patches, 32))
    for n, p in disk.patches.items():
        put_record(PATCH, n, p.name, name16(p.name) + bytes(240) + _ptrs(p.partials, 88))
    for n, p in disk.partials.items():
        assert len(p.samples) <= 4
        par = bytearray(name16(p.name) + bytes(0x80 - 16))
        for slot, sn in zip((16, 32, 48, 64), list(p.samples) + [-1] * (4 - len(p.samples))):
            par[slot:slot + 2] = struct.pack("<h", sn)
            par[slot + 3] = 127                      # sample level
        put_record(PARTIAL, n, p.name, bytes(par))
    for n, s in disk.samples.items():
        pts = s.points()
        par = name16(s.name if s.par_name is None else s.par_name)
        par += b"".join(struct.pack("<I", ((a << 8) | f) & 0xFFFFFFFF) for a, f in zip(pts, s.fines))
        par += struct.pack("<BBBB", s.loop_mode, 1, 0, 0)
        par += struct.pack("<HH", s.cluster_top,
                           max(0, len(s.chain) - s.cluster_top) if s.par_num_clusters is None else s.par_num_clusters)
        par += struct.pack("<BB", ((s.sample_mode & 15) << 4) | (s.freq_code & 15), s.original_key)
        par += bytes(2)
        assert len(par) == 0x30
        put_record(SAMPLE, n, s.name, par, s.chain[0],
                   len(s.chain) if s.dir_num_clusters is None else s.dir_num_clusters)
        # data: leading clusters, then the audio, then filler
        n_lead = min(s.cluster_top, len(s.chain))
        lead_len = n_lead * CLUSTER
        lead = s.lead if s.lead is not None else b"".join(bytes([(0xA0 + i) & 0xFF]) * CLUSTER for i in range(n_lead))
        lead = (lead + bytes([0xA5]) * lead_len)[:lead_len]
        raw = lead + s.pcm
        total = len(s.chain) * CLUSTER
        assert len(raw) <= total or s.cluster_top >= len(s.chain), (s.name, len(raw), total)
        raw = (raw + bytes([s.tail_fill]) * max(0, total - len(raw)))[:total]
        for i, c in enumerate(s.chain):
            put(CLUSTER0_OFFSET + c * CLUSTER, raw[i * CLUSTER:(i + 1) * CLUSTER])
    for (kind, number, off), data in disk.patches_raw.items():
        if kind == "abs":
            put(off, data)
        elif kind.endswith("_dir"):
            put(AREAS[kind[:-4]][0] + DIR_ENTRY * number + off, data)
        else:
            put(AREAS[kind][2] + AREAS[kind][3] * number + off, data)
    return bytes(img)


# ---------------------------------------------------------------------------------------
# what the property says export must write
# ---------------------------------------------------------------------------------------
def _uniq_sorted(lst: List[int]) -> List[int]:
    return sorted(set(x for x in lst if x >= 0))


def referenced_samples(disk: Disk, perf_no: int) -> List[int]:
    """Sample numbers reachable performance -> patch -> partial -> sample (each once)."""
    out: List[int] = []
    for pa in _uniq_sorted(disk.performances[perf_no].patches):
        if pa not in disk.patches:
            continue
        for pt in _uniq_sorted(disk.patches[pa].partials):
            if pt not in disk.partials:
                continue
            for sn in disk.partials[pt].samples:
                if sn >= 0 and sn in disk.samples and sn not in out:
                    out.append(sn)
    return out


def volume_listing(disk: Disk) -> List[Tuple[str, List[int]]]:
    """[(volume name, performance numbers)] including the pseudo volume that collects the
    performances no volume references."""
    vols = [(disk.volumes[n].name, [p for p in _uniq_sorted(disk.volumes[n].performances) if p in disk.performances])
            for n in sorted(disk.volumes)]
    listed = set(p for _, ps in vols for p in ps)
    orphans = [p for p in sorted(disk.performances) if p not in listed]
    if orphans:
        vols.append((ORPHAN_VOLUME if disk.volumes else ALL_PERFORMANCES, orphans))
    return vols


def check_plain_names(disk: Disk) -> None:
    """expected_export assumes names that the exporter uses unchanged: plain characters, no
    two siblings with one name, no sample called like a patch of the same performance, and no
    'xxx L' / 'xxx R' (or '-L' / '-R') names that the exporter would merge into stereo files."""
    import re
    ok = re.compile(r"^[A-Za-z0-9][A-Za-z0-9 ]*[A-Za-z0-9]$|^[A-Za-z0-9]$")
    names = [v.name for v in disk.volumes.values()]
    assert len(set(names)) == len(names), "duplicate volume names"
    for tbl in (disk.volumes, disk.performances, disk.patches, disk.samples):
        for e in tbl.values():
            assert ok.match(e.name), "name %r is not plain" % e.name
    for s in disk.samples.values():
        assert not re.search(r"[\s-]+(L|R)\s*$", s.name), "sample name %r would be paired" % s.name
    for vname, perfs in volume_listing(disk):
        pn = [disk.performances[p].name for p in perfs]
        assert len(set(pn)) == len(pn), "duplicate performance names in volume %s" % vname
        for p in perfs:
            sib = [disk.patches[x].name for x in _uniq_sorted(disk.performances[p].patches) if x in disk.patches] \
                + [disk.samples[s].name for s in referenced_samples(disk, p)]
            assert len(set(sib)) == len(sib), "duplicate names below performance %s" % disk.performances[p].name


def expected_export(disk: Disk) -> Dict[str, Tuple[int, int, bytes]]:
    """{relative path: (channels, sample rate, pcm bytes)} as property C02 describes it."""
    check_plain_names(disk)
    out: Dict[str, Tuple[int, int, bytes]] = {}
    for vname, perfs in volume_listing(disk):
        for p in perfs:
            for sn in referenced_samples(disk, p):
                s = disk.samples[sn]
                out["%s/%s/%s.wav" % (vname, disk.performances[p].name, s.name)] = (1, s.rate(), s.window())
    return out


def expected_listing(disk: Disk) -> Dict[str, List[str]]:
    """Names `ls` must show at each level: {"": volumes, "vol": performances,
    "vol/perf": patches + samples}."""
    out = {"": [v for v, _ in volume_listing(disk)]}
    for vname, perfs in volume_listing(disk):
        out[vname] = [disk.performances[p].name for p in perfs]
        for p in perfs:
            out["%s/%s" % (vname, disk.performances[p].name)] = \
                [disk.patches[x].name for x in _uniq_sorted(disk.performances[p].patches) if x in disk.patches] \
                + [disk.samples[s].name for s in referenced_samples(disk, p)]
    return out


# ---------------------------------------------------------------------------------------
# helpers for generators
# ---------------------------------------------------------------------------------------
def tone(n_words: int, seed: int) -> bytes:
    """n distinct, position dependent 16-bit words (so that any shift, gap or swap shows)."""
    return struct.pack("<%dH" % n_words, *(((i * 40503) + seed * 977 + (i >> 16)) & 0xFFFF for i in range(n_words)))


def simple_disk(samples: List[Sample], fat_version: int = 1, volume="VOL A", performance="PERF A") -> Disk:
    """One volume / performance / patch, samples spread over partials of <= 4."""
    d = Disk(fat_version=fat_version)
    nums = [d.add(SAMPLE, s) for s in samples]
    parts = []
    for i in range(0, len(nums), 4):
        parts.append(d.add(PARTIAL, Partial("PARTIAL %d" % (i // 4), nums[i:i + 4])))
    pa = d.add(PATCH, Patch("PATCH A", parts))
    pf = d.add(PERFORMANCE, Performance(performance, [pa]))
    d.add(VOLUME, Volume(volume, [pf]))
    return d
