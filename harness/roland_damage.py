"""C14, Roland S-7xx part: one sample's directory record (32 bytes) or parameter record
(48 bytes) is damaged; every other sample of the performance must still be listed under its
original name and exported unchanged."""
import io
import random

import model as M
import framework as F
import runner as R

# ------------------------------------------------------------------ correspondence
# Model (coq/RolandEntries.v) against the real record parser, on every image this module
# generates.  The format's addresses as the on-disc layout gives them (roland_writer.AREAS);
# the model's own addresses (id 881) are compared with the seeks the real parser performs.
SCALE_M = 16            # samples 0..15 of both tables make the scaled-down image
DIR_AREA, PAR_AREA = 0x0CD800, 0x255800


def _scaled(data, cut=None):
    """directory records 0..M-1 followed by parameter records 0..M-1 (geometry (M, 0, 32 M));
    `cut` = length of a truncated image: bytes at and after it are missing."""
    if cut is None:
        cut = len(data)
    d = data[DIR_AREA:min(cut, DIR_AREA + 32 * SCALE_M)]
    p = data[PAR_AREA:min(cut, PAR_AREA + 48 * SCALE_M)] if cut > PAR_AREA else b""
    return (d + p) if len(d) == 32 * SCALE_M else d


SCALED_LAYOUT = [SCALE_M, 0, 32 * SCALE_M, 0, 0, 1, 0]


class SeekLog(io.BytesIO):
    def __init__(self, b):
        super().__init__(b)
        self.seeks = []

    def seek(self, off, whence=0):
        self.seeks.append((off, whence))
        return super().seek(off, whence)


def _note(n):
    return [int(n.scale_degree), 1 if n.is_sharp else 0, n.octave]


def _entry_fields(c):
    """the fields the model keeps, from the container SampleEntryConstruct returns"""
    d, p = c.directory, c.parameter
    pts = [p.start_sample, p.sustain_loop_start, p.sustain_loop_end, p.release_loop_start, p.release_loop_end]
    return [c.index,
            [list(d.name.encode("ascii")), int(d.file_type), d.file_attributes, d.fat_entry, d.num_clusters],
            [list(p.name.encode("ascii")), [x.address for x in pts], [x.fine for x in pts], int(p.loop_mode),
             p.sustain_loop_enable, p.sustain_loop_tune, p.release_loop_tune, p.cluster_top, p.num_clusters,
             int(p.sample_options.sample_mode), p.sample_options.sampling_frequency, _note(p.original_key)]]


def real_entry(stream, i):
    """SampleEntryReferenceAdapter's test of the selection, then SampleEntryConstruct (the
    real construct) on the stream: ('ok', fields) | ('err', class)"""
    from construct.core import ConstructError
    from smpl_extract.roland.s7xx.sample_entry import SampleEntryConstruct

    def go():
        if i < 0:
            raise ConstructError            # partial_entry.py: selection < 0
        stream.seek(0)
        return _entry_fields(SampleEntryConstruct(i).parse_stream(stream))
    return M.impl_res(go)


def real_listing(path):
    """Through the public object tree: (program names, [(name, safe name, export name, loop mode,
    addresses, fines, frequency, cluster list)] of the sample files of VOL/PERF in order,
    sparse link table) or ('err', class)."""
    image = R.open_image(path)
    try:
        perf = image.children[0].children[0]
        files = perf.files
        progs, samples = [], []
        for f in files:
            if type(f).__name__ == "SampleFile":
                pts = [f.start_sample, f.sustain_loop_start, f.sustain_loop_end, f.release_loop_start, f.release_loop_end]
                samples.append([f.name, f.safe_name, f.export_name, int(f.loop_mode), [x.address for x in pts],
                                [x.fine for x in pts], f.sampling_frequency, list(F.private(F.private(f, "_data_stream"), "sector_list"))])
            else:
                progs.append([f.name, f.safe_name, f.export_name])
        fat = F.private(perf, "_fat")
        links = [[k, l.next, 1 if l.end else 0] for k, l in enumerate(fat.sector_links) if not (l.end and l.next == 0)]
        return ("ok", (progs, samples, [fat.size, links]))
    except F.Unavailable:
        raise
    except Exception as e:  # noqa
        return ("err", type(e).__name__)
    finally:
        R.close_image(image)


def reference_list(d, perf_no=0):
    """the sample numbers PerformanceEntry.files looks at, from the logical disk: per patch
    (ascending, once), per partial (ascending, once), the four slots in order, first
    occurrence per patch; selections < 0 are not references."""
    out = []
    for pa in sorted(set(x for x in d.performances[perf_no].patches if x >= 0)):
        seen = []
        for pt in sorted(set(x for x in d.patches[pa].partials if x >= 0)) if pa in d.patches else []:
            for sn in (d.partials[pt].samples if pt in d.partials else []):
                if sn >= 0 and sn not in seen:
                    seen.append(sn)
        out += seen
    return out


def model_entry_out(v):
    r = M.res(v)
    return r if r[0] != "ok" else ("ok", r[1])


class Deferred:
    """model calls of one job, evaluated together (one driver process per round)"""

    def __init__(self):
        self.items = []

    def call(self, fn, arg, then):
        self.items.append((fn, arg, then))

    def flush(self):
        while self.items:
            batch, self.items = self.items, []
            out = M.call_mixed([(fn, arg) for fn, arg, _ in batch])
            if len(out) != len(batch):
                raise RuntimeError("model driver returned %d lines for %d calls" % (len(out), len(batch)))
            for (_, _, then), r in zip(batch, out):
                then(r)


def correspond(ctx, q, case, data, idx, path=None, full=False, cuts=()):
    """model vs implementation on one image: every reference of `idx` (plus -1 and the last
    index of the scaled table), the listing with its cluster lists, the listed names.  The
    implementation side is evaluated now, the model side when `q` is flushed."""
    probe = list(dict.fromkeys(list(idx) + [-1, SCALE_M - 1]))
    st = SeekLog(data)
    impl = [real_entry(st, i) for i in probe]

    def cmp_entries(rel, cs, indices, impl_):
        def then(mod):
            for i, a, b in zip(indices, impl_, mod):
                ctx.agree(rel, dict(cs, index=i), list(a), _canon(model_entry_out(b)))
        return then
    q.call("roland_sample_entry", [SCALED_LAYOUT, _scaled(data), probe], cmp_entries("roland_sample_entry", case, probe, impl))
    # where the real parser looked
    i0 = idx[-1] if idx else 0
    for i in (i0, 0x1FFF):
        st.seeks.clear()
        r = real_entry(st, i)
        seen = [o for o, w in st.seeks if o != 0 and w == 0]
        # a directory record that fails to parse ends the entry: the parameter record is not visited
        q.call("roland_record_offsets", i,
               lambda offs, i=i, seen=seen, r=r: ctx.agree("roland_record_offsets", dict(case, index=i),
                                                           [seen, len(seen) == 2 or r[0] == "err", len(seen) >= 1],
                                                           [offs[:len(seen)], True, True]))
    for cut in cuts:
        t = SeekLog(data[:cut])
        ti = [real_entry(t, i) for i in idx]
        q.call("roland_sample_entry", [SCALED_LAYOUT, _scaled(data, cut), list(idx)],
               cmp_entries("roland_sample_entry(truncated)", dict(case, cut=cut), list(idx), ti))
    if path is not None:
        try:
            rl = real_listing(path)
        except F.Unavailable as e:
            rl = None
            ctx.note("C14: relations roland_entries_of / roland_listed_names skipped, internal name not available: %s" % e)
        if rl is None:
            pass
        elif rl[0] == "ok":
            progs, samples, nl = rl[1]

            def then_listing(v):
                mv = M.res(v)
                if mv[0] == "ok":
                    ml = [[_s(e[1][0]), e[2][3], e[2][1], e[2][2], e[2][10], secs] for e, secs in mv[1]]
                else:
                    ml = list(mv)
                ctx.agree("roland_entries_of", case, [[s[0], s[3], s[4], s[5], s[6], s[7]] for s in samples], ml)
                if mv[0] == "ok":
                    elems = [[p[0], 1] for p in progs] + [[_s(e[1][0]), 1] for e, _ in mv[1]]
                    for which, col, fn in ((0, 1, "make_safe_names"), (1, 2, "make_export_names")):
                        def then_names(nv, which=which, col=col):
                            r = M.res(nv)
                            ctx.agree("roland_listed_names", dict(case, export=which),
                                      [p[col] for p in progs] + [s[col] for s in samples],
                                      [_s(n) for n in r[1]] if r[0] == "ok" else list(r))
                        q.call(fn, elems, then_names)
            q.call("roland_entries_of", [SCALED_LAYOUT, nl, _scaled(data), list(idx)], then_listing)
        else:
            q.call("roland_entries_of", [SCALED_LAYOUT, [65536, []], _scaled(data), list(idx)],
                   lambda v: ctx.agree("roland_entries_of(raises)", case, list(rl),
                                       (lambda mv: list(mv[:2]) if mv[0] != "ok" else ["ok"])(M.res(v))))
    if full:
        big = [i0, -1, 0x1FFF, 0x2000, 0x2001]
        bi = [real_entry(st, i) for i in big]
        q.call("roland_entries_img", [M.Raw(M.enc_image(data)), big], cmp_entries("roland_entries_img", case, big, bi))


def _s(codes):
    return "".join(map(chr, codes))


def _canon(r):
    return [r[0], r[1]] if len(r) > 1 else [r[0]]



def base_disk(rng):
    import roland_writer as W
    d = W.Disk(fat_version=rng.choice([1, 2]))
    names = ["KICK", "SNARE", "HAT", "TOM", "BASS"]
    n = rng.randint(3, 5)
    samples = []
    for i in range(n):
        nw = rng.choice([100, 3000, 4608, 5000])
        s = W.Sample(names[i], W.tone(nw, i + 1), loop_mode=rng.choice([0, 1, 2, 5]), freq_code=rng.randrange(6),
                     chain=list(range(20 + 4 * i, 20 + 4 * i + max(1, -(-2 * nw // W.CLUSTER)))))
        samples.append(d.add(W.SAMPLE, s))
    pt1 = d.add(W.PARTIAL, W.Partial("PT1", samples[:3]))
    pt2 = d.add(W.PARTIAL, W.Partial("PT2", samples[3:])) if len(samples) > 3 else None
    pa = d.add(W.PATCH, W.Patch("PATCH", [p for p in (pt1, pt2) if p is not None]))
    pf = d.add(W.PERFORMANCE, W.Performance("PERF", [pa]))
    d.add(W.VOLUME, W.Volume("VOL", [pf]))
    return d, samples


def observe(data, hook=None):
    with R.TempImage(data, "r.img") as path:
        l = R.ls(path, "VOL/PERF")
        r, tree, rep = R.export(path)
        if hook is not None:
            hook(path)
    names = {}
    lines = l.out.splitlines()
    if len(lines) >= 2 and "Type" in lines[0]:
        w = lines[0].index("Type")
        for ln in lines[2:]:
            if ln.strip():
                names[ln[:w].rstrip()] = ln[w:].strip()
    return names, tree, (l.exc_name, r.exc_name), l.out


def damages(rng, tier):
    """(record kind, offset, bytes, tag)"""
    vals = [0x00, 0x01, 0x7F, 0x80, 0xFF]
    for off in range(32):
        for v in (vals if tier != "quick" else ([0x00, 0xFF] if off >= 16 else [0xFF])):
            yield "sample_dir", off, bytes([v]), "dir[%d]" % off
    for off in range(48):
        for v in (vals if tier != "quick" else ([0x00, 0x01, 0xFF] if off >= 16 else [0xFF])):
            yield "sample", off, bytes([v]), "par[%d]" % off
    for _ in range(8 if tier == "quick" else 60):
        kind = rng.choice(["sample_dir", "sample"])
        size = 32 if kind == "sample_dir" else 48
        off = rng.randrange(size)
        yield kind, off, bytes(rng.randrange(256) for _ in range(rng.randint(1, size - off))), "random"


def run_job(ctx, tier, job):
    import roland_writer as W
    rng = random.Random(job)
    d, samples = base_disk(rng)
    img0 = W.image_bytes(d)
    idx = reference_list(d)
    base_case = {"roland": True, "seed": job, "samples": [d.samples[s].name for s in samples]}
    q = Deferred()
    names0, tree0, exc0, _ = observe(img0, lambda path: correspond(ctx, q, dict(base_case, damage=None), img0, idx, path, full=True,
                                                                   cuts=[DIR_AREA + 32 * idx[-1] + 7, DIR_AREA + 32 * idx[-1] + 20,
                                                                         PAR_AREA + 48 * idx[1] + 5, PAR_AREA + 48 * idx[1] + 30,
                                                                         PAR_AREA + 48 * idx[1] + 47, PAR_AREA + 48 * idx[1] + 48]))
    if not ctx.require("undamaged Roland image lists and exports", base_case, exc0 == (None, None) and len(names0) >= len(samples), (exc0, names0)):
        q.flush()
        return
    k = samples[job % len(samples)]
    victim = d.samples[k].name
    others = [d.samples[s].name for s in samples if s != k]
    nfull = [0]
    for kind, off, rep, tag in damages(rng, tier):
        d.patches_raw.clear()
        d.patches_raw[(kind, k, off)] = rep
        data = W.image_bytes(d)
        if data == img0:
            continue
        # a damaged NAME that equals / pairs with a sibling's is the design-inherent case D15
        new_name = None
        if kind == "sample_dir" and off < 16:
            raw = bytearray(W.name16(victim))
            raw[off:off + len(rep)] = rep
            try:
                new_name = bytes(raw[:16]).decode("ascii").rstrip(" ")
            except UnicodeDecodeError:
                new_name = None
        namesake = new_name is not None and new_name.strip() in others
        case = dict(base_case, victim=victim, record=kind, offset=off, bytes=rep.hex(), field=tag, namesake=namesake, endflag_in_name=False)
        nfull[0] += 1
        names1, tree1, exc1, out1 = observe(data, lambda path: correspond(ctx, q, case, data, idx, path,
                                                                          full=(tier != "quick" and nfull[0] % 40 == 1)))
        ctx.count("roland_damage", (job, kind, off, rep), nontrivial=True)
        if not ctx.require("ls and export of the damaged image finish without exception", case, exc1 == (None, None), exc1):
            continue
        lost = [o for o in others if names1.get(o) != names0.get(o)]
        ctx.require("every other item of the directory is still listed under its original name", case, not lost, {"lost_or_changed": lost, "ls": out1[:300]})
        bad = [o for o in others if tree1.get("VOL/PERF/%s.wav" % o) != tree0.get("VOL/PERF/%s.wav" % o)]
        ctx.require("every other item's audio is still exported unchanged", case, not bad, bad)
    d.patches_raw.clear()
    q.flush()
    corr_job(ctx, tier, job)


# ------------------------------------------------------------------ correspondence on a richer tree
def corr_disk(rng):
    """two patches sharing a partial, a sample used by several slots, an empty slot in the
    middle, a reference to an unused table slot (its zero record parses: empty name, start
    cluster 0), leading clusters: exercises order, per-patch de-duplication, the dropped and
    the kept references and the counted names ("KICK (2)")."""
    import roland_writer as W
    d = W.Disk(fat_version=rng.choice([1, 2]))
    names = ["KICK", "SNARE", "HAT", "TOM", "BASS", "RIDE"]
    ss = []
    for i, nm in enumerate(names):
        nw = rng.choice([60, 3000, 5000])
        ss.append(d.add(W.SAMPLE, W.Sample(nm, W.tone(nw, i + 3), loop_mode=rng.randrange(7), freq_code=rng.randrange(6),
                                           cluster_top=rng.choice([0, 0, 1]), fines=tuple(rng.randrange(256) for _ in range(5)))))
    unused = 9
    pa = d.add(W.PARTIAL, W.Partial("PA", [ss[0], ss[1], -1, ss[2]]))
    pb = d.add(W.PARTIAL, W.Partial("PB", [ss[2], ss[3], unused, ss[0]]))
    pc = d.add(W.PARTIAL, W.Partial("PC", [ss[4], ss[5]]))
    x = d.add(W.PATCH, W.Patch("PX", [pa, pb]))
    y = d.add(W.PATCH, W.Patch("PY", [pb, pc, pb]))
    pf = d.add(W.PERFORMANCE, W.Performance("PERF", [x, y]))
    d.add(W.VOLUME, W.Volume("VOL", [pf]))
    return d, ss + [unused]


def corr_damages(rng, n):
    fields = [("sample_dir", 0, 1), ("sample_dir", 15, 1), ("sample_dir", 16, 2), ("sample_dir", 28, 2), ("sample_dir", 30, 2),
              ("sample", 0, 16), ("sample", 16, 4), ("sample", 24, 4), ("sample", 36, 1), ("sample", 40, 2), ("sample", 44, 1),
              ("sample", 45, 1)]
    for _ in range(n):
        if rng.random() < 0.6:
            kind, off, ln = rng.choice(fields)
        else:
            kind = rng.choice(["sample_dir", "sample"])
            size = 32 if kind == "sample_dir" else 48
            off = rng.randrange(size)
            ln = rng.randint(1, size - off)
        yield kind, off, bytes(rng.choice([rng.randrange(256), rng.randrange(128), 0, 0xFF, rng.randrange(8)]) for _ in range(ln))


def corr_job(ctx, tier, job):
    import roland_writer as W
    rng = random.Random(job * 31 + 5)
    d, slots = corr_disk(rng)
    idx = reference_list(d)
    img0 = W.image_bytes(d)
    base = {"roland": True, "seed": job, "tree": "shared"}
    q = Deferred()
    with R.TempImage(img0, "r.img") as path:
        correspond(ctx, q, dict(base, damage=None), img0, idx, path)
    for kind, off, rep in corr_damages(rng, 6 if tier == "quick" else 40):
        k = rng.choice(slots)
        d.patches_raw.clear()
        d.patches_raw[(kind, k, off)] = rep
        data = W.image_bytes(d)
        d.patches_raw.clear()
        case = dict(base, victim_index=k, record=kind, offset=off, bytes=rep.hex())
        ctx.count("roland_damage_shared_tree", (job, kind, k, off, rep), nontrivial=data != img0)
        with R.TempImage(data, "r.img") as path:
            correspond(ctx, q, case, data, idx, path)
    q.flush()
