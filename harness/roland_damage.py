"""C14, Roland S-7xx part: one sample's directory record (32 bytes) or parameter record
(48 bytes) is damaged; every other sample of the performance must still be listed under its
original name and exported unchanged."""
import random

import runner as R


def base_disk(rng):
    import roland_writer as W
    d = W.Disk(fat_version=rng.choice([1, 2]))
    names = ["KICK", "SNARE", "HAT", "TOM", "BASS"]
    n = rng.randint(3, 5)
    samples = []
    for i in range(n):
        nw = rng.choice([100, 3000, 4608, 5000])
        s = W.Sample(names[i], W.tone(nw, i + 1), loop_mode=rng.choice([0, 1, 2, 5]), freq_code=rng.randrange(6),
                     chain=list(range(20 + 4 * i, 20 + 4 * i + max(1, -(-2 * nw // W.CLUSTER)))))
        samples.append(d.add(W.SAMPLE, s))
    pt1 = d.add(W.PARTIAL, W.Partial("PT1", samples[:3]))
    pt2 = d.add(W.PARTIAL, W.Partial("PT2", samples[3:])) if len(samples) > 3 else None
    pa = d.add(W.PATCH, W.Patch("PATCH", [p for p in (pt1, pt2) if p is not None]))
    pf = d.add(W.PERFORMANCE, W.Performance("PERF", [pa]))
    d.add(W.VOLUME, W.Volume("VOL", [pf]))
    return d, samples


def observe(data):
    with R.TempImage(data, "r.img") as path:
        l = R.ls(path, "VOL/PERF")
        r, tree, rep = R.export(path)
    names = {}
    lines = l.out.splitlines()
    if len(lines) >= 2 and "Type" in lines[0]:
        w = lines[0].index("Type")
        for ln in lines[2:]:
            if ln.strip():
                names[ln[:w].rstrip()] = ln[w:].strip()
    return names, tree, (l.exc_name, r.exc_name), l.out


def damages(rng, tier):
    """(record kind, offset, bytes, tag)"""
    vals = [0x00, 0x01, 0x7F, 0x80, 0xFF]
    for off in range(32):
        for v in (vals if tier != "quick" else ([0x00, 0xFF] if off >= 16 else [0xFF])):
            yield "sample_dir", off, bytes([v]), "dir[%d]" % off
    for off in range(48):
        for v in (vals if tier != "quick" else ([0x00, 0x01, 0xFF] if off >= 16 else [0xFF])):
            yield "sample", off, bytes([v]), "par[%d]" % off
    for _ in range(8 if tier == "quick" else 60):
        kind = rng.choice(["sample_dir", "sample"])
        size = 32 if kind == "sample_dir" else 48
        off = rng.randrange(size)
        yield kind, off, bytes(rng.randrange(256) for _ in range(rng.randint(1, size - off))), "random"


def run_job(ctx, tier, job):
    import roland_writer as W
    rng = random.Random(job)
    d, samples = base_disk(rng)
    img0 = W.image_bytes(d)
    names0, tree0, exc0, _ = observe(img0)
    base_case = {"roland": True, "seed": job, "samples": [d.samples[s].name for s in samples]}
    if not ctx.require("undamaged Roland image lists and exports", base_case, exc0 == (None, None) and len(names0) >= len(samples), (exc0, names0)):
        return
    k = samples[job % len(samples)]
    victim = d.samples[k].name
    others = [d.samples[s].name for s in samples if s != k]
    for kind, off, rep, tag in damages(rng, tier):
        d.patches_raw.clear()
        d.patches_raw[(kind, k, off)] = rep
        data = W.image_bytes(d)
        if data == img0:
            continue
        # a damaged NAME that equals / pairs with a sibling's is the design-inherent case D15
        new_name = None
        if kind == "sample_dir" and off < 16:
            raw = bytearray(W.name16(victim))
            raw[off:off + len(rep)] = rep
            try:
                new_name = bytes(raw[:16]).decode("ascii").rstrip(" ")
            except UnicodeDecodeError:
                new_name = None
        namesake = new_name is not None and new_name.strip() in others
        names1, tree1, exc1, out1 = observe(data)
        case = dict(base_case, victim=victim, record=kind, offset=off, bytes=rep.hex(), field=tag, namesake=namesake, endflag_in_name=False)
        ctx.count("roland_damage", (job, kind, off, rep), nontrivial=True)
        if not ctx.require("ls and export of the damaged image finish without exception", case, exc1 == (None, None), exc1):
            continue
        lost = [o for o in others if names1.get(o) != names0.get(o)]
        ctx.require("every other item of the directory is still listed under its original name", case, not lost, {"lost_or_changed": lost, "ls": out1[:300]})
        bad = [o for o in others if tree1.get("VOL/PERF/%s.wav" % o) != tree0.get("VOL/PERF/%s.wav" % o)]
        ctx.require("every other item's audio is still exported unchanged", case, not bad, bad)
    d.patches_raw.clear()
