"""View specs shared by C08 / C11: build the real stream objects, the model encoding and
the independent logical-content oracle from one nested-tuple spec.

spec ::= ("base",) | ("wrap", size, sub) | ("off", size, off, sub) | ("sect", size, L, sub)
       | ("chain", L, secs, sub) | ("mdf", sub) | ("rev", size, w, sub)
"""
import io


def build(spec, base):
    from smpl_extract.util.stream import StreamWrapper, StreamOffset, StreamReversed
    from smpl_extract.util.sector import SectorStream
    from smpl_extract.util.fat import FileStream
    from smpl_extract.alcohol.mdf import MdfStream
    k = spec[0]
    if k == "base":
        return base
    sub = build(spec[-1], base)
    if k == "wrap":
        return StreamWrapper(sub, spec[1])
    if k == "off":
        return StreamOffset(sub, spec[1], spec[2])
    if k == "sect":
        return SectorStream(sub, spec[1], spec[2])
    if k == "chain":
        return FileStream(sub, spec[1], list(spec[2]))
    if k == "mdf":
        return MdfStream(sub)
    if k == "rev":
        return StreamReversed(sub, spec[1], spec[2])
    raise ValueError(k)


def logical(spec, content: bytes) -> bytes:
    """What the view is meant to contain, straight from the property's description."""
    k = spec[0]
    if k == "base":
        return content
    p = logical(spec[-1], content)
    if k in ("wrap", "sect"):
        return p[:spec[1]]
    if k == "off":
        return p[spec[2]:spec[2] + spec[1]]
    if k == "chain":
        L = spec[1]
        return b"".join(p[s * L:(s + 1) * L] for s in spec[2])
    if k == "mdf":
        n = len(p) // 2352
        return b"".join(p[i * 2352 + 16:i * 2352 + 16 + 2048] for i in range(n))
    if k == "rev":
        w = spec[2]
        q = p[:spec[1]]
        return b"".join(q[i:i + w] for i in range(len(q) - w, -1, -w))
    raise ValueError(k)


def size_of(spec, content_len):
    k = spec[0]
    if k == "base":
        return content_len
    if k in ("wrap", "off", "sect", "rev"):
        return spec[1]
    if k == "chain":
        return spec[1] * len(spec[2])
    if k == "mdf":
        return (size_of(spec[-1], content_len) // 2352) * 2048


def enc_view(spec, content_len):
    """Encoding understood by Driver.unview."""
    k = spec[0]
    if k == "base":
        return [0]
    sub = enc_view(spec[-1], content_len)
    if k == "wrap":
        return [1, [0], spec[1], sub]
    if k == "off":
        return [1, [1, spec[2]], spec[1], sub]
    if k == "sect":
        return [1, [2, spec[2], [0]], spec[1], sub]
    if k == "chain":
        return [1, [2, spec[1], [1, list(spec[2])]], spec[1] * len(spec[2]), sub]
    if k == "mdf":
        return [1, [2, 2048, [2]], size_of(spec, content_len), sub]
    if k == "rev":
        return [1, [3, spec[2]], spec[1], sub]


def enc_ops(ops):
    out = []
    for o in ops:
        if o[0] == "tell":
            out.append([1])
        elif o[0] == "seek":
            out.append([0, o[1], o[2]])
        else:
            out.append([2, o[1]])
    return out


def run_impl(stream, ops):
    """-> list of ('pos', p) | ('bytes', b) | ('err', name)"""
    import model as M
    outs = []
    for o in ops:
        try:
            if o[0] == "tell":
                outs.append(("pos", stream.tell()))
            elif o[0] == "seek":
                outs.append(("pos", stream.seek(o[1], o[2])))
            else:
                outs.append(("bytes", bytes(stream.read(o[1]))))
        except Exception as e:  # noqa
            n = type(e).__name__
            for c in type(e).__mro__:
                if c.__name__ in set(M.EXN.values()):
                    n = c.__name__
                    break
            outs.append(("err", n))
    return outs


def dec_outs(v):
    import model as M
    outs = []
    for o in v:
        if o[0] == 0:
            outs.append(("pos", o[1]))
        elif o[0] == 1:
            outs.append(("bytes", bytes(o[1])))
        elif o[0] == 2:
            outs.append(("err", M.EXN.get(o[1], str(o[1]))))
        else:
            outs.append(("fuel",))
    return outs


def run_ref(L: bytes, ops, rev_width=None):
    """The ordinary read-only file over logical content L (property C08).  For a top-level
    reversed view (rev_width = w) unaligned positions/sizes must be rejected with an error
    and leave the position unchanged."""
    pos, outs = 0, []
    n = len(L)
    for o in ops:
        if o[0] == "tell":
            outs.append(("pos", pos))
        elif o[0] == "seek":
            start = {0: 0, 1: pos, 2: n}.get(o[2], 0)
            np_ = min(max(start + o[1], 0), n)
            if rev_width and np_ % rev_width:
                outs.append(("err", "BadAlign"))
                continue
            pos = np_
            outs.append(("pos", pos))
        else:
            k = o[1]
            if k is None or k < 0:
                if rev_width and ((n - pos) % rev_width or pos % rev_width) and pos < n:
                    outs.append(("err", None))   # some alignment error
                    continue
                outs.append(("bytes", L[pos:]))
                pos = n
                continue
            k = min(k, n - pos)
            if rev_width and (k % rev_width or pos % rev_width):
                outs.append(("err", None))
                continue
            outs.append(("bytes", L[pos:pos + k]))
            pos += k
    return outs


def ref_agrees(ref, got):
    if len(ref) != len(got):
        return False
    for r, g in zip(ref, got):
        if r[0] == "err":
            if g[0] != "err" or (r[1] is not None and g[1] != r[1]) or g[1] not in ("BadAlign", "BadReadSize"):
                return False
        elif r != g:
            return False
    return True


def random_wf_view(rng, depth, content_len, allow_rev=True):
    """A well-formed nesting of the given depth over a base of content_len bytes; returns
    (spec, logical_len).  Windows lie inside the parent's logical content."""
    spec, ln = ("base",), content_len
    for d in range(depth):
        top = d == depth - 1
        kinds = ["wrap", "off", "off", "sect", "chain", "chain"]
        if allow_rev and top:
            kinds += ["rev", "rev"]
        if ln >= 2352 * 2 and d == 0:
            kinds += ["mdf"] * 3
        k = rng.choice(kinds)
        if ln < 2:
            k = "wrap"
        if k == "wrap":
            size = rng.randint(1, ln)
            spec, ln = ("wrap", size, spec), size
        elif k == "off":
            off = rng.randint(0, ln - 1)
            size = rng.randint(1, ln - off)
            spec, ln = ("off", size, off, spec), size
        elif k == "sect":
            size = rng.randint(1, ln)
            spec, ln = ("sect", size, rng.randint(1, max(1, min(9, size))), spec), size
        elif k == "chain":
            L = rng.randint(1, max(1, min(8, ln)))
            nsec = ln // L
            cnt = rng.randint(1, min(nsec, 6))
            secs = rng.sample(range(nsec), cnt) if rng.random() < 0.8 else [rng.randrange(nsec) for _ in range(cnt)]
            spec, ln = ("chain", L, tuple(secs), spec), L * cnt
        elif k == "mdf":
            spec, ln = ("mdf", spec), (ln // 2352) * 2048
        elif k == "rev":
            w = rng.choice([1, 2, 2, 3, 4, 6, 8])
            if ln < w:
                w = 1
            size = rng.randint(1, ln // w) * w
            spec, ln = ("rev", size, w, spec), size
    return spec, ln
