#!/usr/bin/env python3
"""Regenerates /verif/MANIFEST.json from the table below (kept in one place so that the
manifest is always schema-valid and in step with the checks that exist)."""
import json, os
V = os.path.dirname(os.path.dirname(os.path.abspath(__file__)))
props = [json.loads(l) for l in open(os.path.join(V, "properties.jsonl"))]
import importlib.util
spec = importlib.util.spec_from_file_location("claims", os.path.join(V, "tools", "claims.py"))
claims = importlib.util.module_from_spec(spec); spec.loader.exec_module(claims)
checks, na = [], []
for p in props:
    pid = p["id"]
    c = claims.CLAIMS.get(pid)
    if c is None or not os.path.exists(os.path.join(V, "harness", "props", pid.lower() + ".py")):
        na.append({"property_id": pid, "reason": claims.NOT_YET.get(pid, "check not built yet in this round (planned, see DESIGN.md section 5); no technique other than Coq proof + correspondence is substituted")})
        continue
    checks.append({
        "property_id": pid,
        "quick_cmd": "./check %s --tier quick" % pid,
        "thorough_cmd": "./check %s --tier thorough" % pid,
        "evidence_file": "/verif/evidence/%s.json" % pid,
        "replay_cmd_template": "./check %s --replay {path}" % pid,
        "engine": "coq-model+correspondence",
        "level_claimed": {"category": "proof", "text": c["text"], "design_ref": c.get("ref", "DESIGN.md section 5, " + pid)},
        "level_note": c["note"],
        "technique": c["technique"],
    })
m = {
    "version": 1,
    "setup_cmd": "./setup.sh",
    "hooks": {"guard": "SMPL_EXTRACT_VERIF", "enable": "no source hooks are needed: every observable is reached through the public API; the checks export SMPL_EXTRACT_VERIF=1 for completeness",
              "baseline_off_cmd": "cd /repo && /venv/bin/python -m pytest -ra -q -p no:cacheprovider --timeout=900 --continue-on-collection-errors",
              "source_commits": [], "add_only": True},
    "engines": [{"name": "coq-model+correspondence", "path": "/verif/coq , /verif/ocaml , /verif/harness",
                 "serves_properties": [c["property_id"] for c in checks],
                 "kind_free_text": "Coq 8.16.1 theorems about an executable Gallina model (coq/*.v, property theorems in coq/Props/Cxx.v), extracted to OCaml and run against the real implementation on generated and exhaustively enumerated inputs; property oracles search for a failing input when the tie breaks"}],
    "checks": checks,
    "not_applicable": na,
    "notes": "See DESIGN.md. Fixes committed to /repo as 'fix:' commits are listed in known_findings.json (fixed:). Seeded changes used to test the checks are under seeded/.",
}
json.dump(m, open(os.path.join(V, "MANIFEST.json"), "w"), indent=1)
print("checks:", [c["property_id"] for c in checks], "not claimed:", len(na))
