"""Per-property claim texts for MANIFEST.json (tools/gen_manifest.py)."""
CORR = ("Trusted: Coq kernel; the hand-written Gallina model is tied to /repo only by the correspondence run "
        "(extracted model vs implementation on the same inputs, every run) and the independent property oracle; "
        "extraction (ExtrOcamlBasic, ExtrOCamlFloats, ExtrOCamlInt63) and ocaml/driver.ml; harness writers/oracles. ")
CLAIMS = {
 "C18": {
  "text": "Theorems (Props/C18.v): AKAI<->ASCII bijection on the 41 codes and rejection of the other 215 byte values (finite domain, vm_compute lifted by forallb_forall); round-trip of names of ANY length (induction); note number round-trip for EVERY integer (lia over floor div/mod); note text round-trip for 7x2x10 names; tuning byte round-trip over all 256 bytes in IEEE binary64 (PrimFloat, vm_compute). Tie: the same functions extracted to OCaml agree with the implementation on all 256 bytes per codec, all note names and sampled strings, bit-exact for floats.",
  "note": CORR + "Print Assumptions: closed under the global context except the kernel's primitive float/int63 operations for tune_roundtrip. Python's float arithmetic is assumed IEEE binary64 round-to-nearest-even (checked bit-exactly against PrimFloat on every run).",
  "technique": "Coq proof (finite-domain vm_compute + induction + lia) with exhaustive model/implementation correspondence"},
}
NOT_YET = {}
