"""Per-property claim texts for MANIFEST.json (tools/gen_manifest.py)."""
CORR = ("Trusted: Coq kernel; the hand-written Gallina model is tied to /repo only by the correspondence run "
        "(extracted model vs implementation on the same inputs, every run) and the independent property oracle; "
        "extraction (ExtrOcamlBasic, ExtrOCamlFloats, ExtrOCamlInt63) and ocaml/driver.ml; harness writers/oracles. ")
CLAIMS = {
 "C18": {
  "text": "Theorems (Props/C18.v): AKAI<->ASCII bijection on the 41 codes and rejection of the other 215 byte values (finite domain, vm_compute lifted by forallb_forall); round-trip of names of ANY length (induction); note number round-trip for EVERY integer (lia over floor div/mod); note text round-trip for 7x2x10 names; tuning byte round-trip over all 256 bytes in IEEE binary64 (PrimFloat, vm_compute). Tie: the same functions extracted to OCaml agree with the implementation on all 256 bytes per codec, all note names and sampled strings, bit-exact for floats.",
  "note": CORR + "Print Assumptions: closed under the global context except the kernel's primitive float/int63 operations for tune_roundtrip. Python's float arithmetic is assumed IEEE binary64 round-to-nearest-even (checked bit-exactly against PrimFloat on every run).",
  "technique": "Coq proof (finite-domain vm_compute + induction + lia) with exhaustive model/implementation correspondence"},
}
CLAIMS["C07"] = {
  "text": "Theorems (Props/C07.v), all sizes: get_path_follows (a chain present in the link table is returned exactly, in order), get_path_total (for ANY table: never out of fuel, result is a bounded in-range path from the start sector or one of two reported errors), akai_decode_total (AKAI SAT decoding of any table terminates within 2*size+2 inner steps; potential-function proof), roland_decode_total / roland_get_file_total (after the D2 fix). Chain resolution through the DECODED AKAI table is proved only as a bounded theorem (all tables of <= 4 words, enumerated inside Coq; akai_decode_chain_upto_4_partial); the unbounded statement is kept visible as akai_decode_chain_statement and is carried by the exhaustive correspondence run (all tables <= 4 quick / <= 5 thorough words + sampled 5-7 and real-size tables) against an independent oracle. D4 and D11 are proved as _refuted theorems and listed as known findings.",
  "note": CORR + "All property theorems are closed under the global context. Table words are assumed non-negative (16-bit fields).",
  "technique": "Coq proof (induction on fuel with a potential function; bounded enumeration by vm_compute where stated) with exhaustive small-scope model/implementation correspondence"}
NOT_YET = {}
