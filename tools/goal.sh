#!/bin/sh
# tools/goal.sh <file.v> <line> : show the proof state just before <line> (development aid)
f="$1"; n="$2"; d=$(dirname "$f"); b=$(basename "$f" .v)
head -n $((n-1)) "$f" > "$d/Tmp_goal_$b.v"; echo "Show. Abort." >> "$d/Tmp_goal_$b.v"
(cd "$d" && timeout 300 coqc -Q . SE "Tmp_goal_$b.v" 2>&1 | tail -${3:-40}); rm -f "$d/Tmp_goal_$b".* "$d/.Tmp_goal_$b.aux"
