#!/bin/sh
# tools/try_benign.sh <ID> <letter> <check id...> : apply a behaviour-preserving rewrite (/verif/benign/<ID>-<letter>/patch.diff
# or /tmp/benign/<ID>/<letter>/patch.diff) to /repo, run the checks (each must stay quiet), undo.
ID="$1"; X="$2"; shift 2
P="/verif/benign/$ID-$X/patch.diff"; [ -f "$P" ] || P="/tmp/benign/$ID/$X/patch.diff"
git -C /repo apply "$P" 2>/dev/null || { echo "patch does not apply"; exit 2; }
for c in "$@"; do timeout 2400 /verif/check "$c" 2>&1 | grep -E "VIOLATION|INTERNAL|-> (ok|FAIL)" | cut -c1-400; done
git -C /repo checkout -- .
git -C /repo status --short | grep -v '^??' && echo "REPO NOT CLEAN"
