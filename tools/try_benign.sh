#!/bin/sh
# tools/try_benign.sh <ID> <letter> <check id...> : apply a behaviour-preserving rewrite (/verif/benign/<ID>-<letter>/patch.diff
# or /tmp/benign/<ID>/<letter>/patch.diff) to /repo, run the checks (each must stay quiet), undo.
ID="$1"; X="$2"; shift 2
P="/verif/benign/$ID-$X/patch.diff"; [ -f "$P" ] || P="/tmp/benign/$ID/$X/patch.diff"
if ! git -C /repo apply "$P" 2>/dev/null; then
  # /repo has moved on (later fix: commits): try a three-way merge of the rewrite, give up on conflicts
  if ! git -C /repo apply -3 "$P" >/dev/null 2>&1 || git -C /repo diff --name-only --diff-filter=U | grep -q .; then
    git -C /repo checkout -q HEAD -- . 2>/dev/null; git -C /repo reset -q 2>/dev/null; git -C /repo checkout -- .
    echo "patch does not apply to the current HEAD (conflict with a later fix): skipped"; exit 2
  fi
  git -C /repo reset -q
  echo "(applied by three-way merge)"
fi
for c in "$@"; do timeout 2400 /verif/check "$c" 2>&1 | grep -E "VIOLATION|INTERNAL|-> (ok|FAIL)" | cut -c1-400; done
git -C /repo checkout -- .
git -C /repo status --short | grep -v '^??' && echo "REPO NOT CLEAN"
