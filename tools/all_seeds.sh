#!/bin/sh
# tools/all_seeds.sh : run every seeded change against the check of its own property (detection matrix)
cd "$(dirname "$0")/.."
for d in seeded/C*; do
  s=$(basename "$d"); p=${s%-*}
  r=$(tools/try_seed.sh "$s" "$p" 2>&1 | grep -E "VIOLATION|-> (ok|FAIL)|INTERNAL|REPO NOT CLEAN" | grep -v KNOWN | tr '\n' ' ' | cut -c1-160)
  echo "$s: $r"
done
