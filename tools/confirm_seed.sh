#!/bin/sh
# tools/confirm_seed.sh <Cxx> <a|b>  : independently confirm a seeded change produced by a sub-agent
# (tests pass with it; demo fails with it and passes without), then file it under /verif/seeded/.
set -u
ID="$1"; X="$2"; SRC_DIR="/tmp/seeded/$ID/$X"; WT="/tmp/cs-$ID-$X"
[ -f "$SRC_DIR/patch.diff" ] || { echo "no patch"; exit 2; }
git -C /repo worktree add -q --detach "$WT" HEAD || exit 2
cp /repo/smpl_extract/filters/*.so "$WT/smpl_extract/filters/"
res_apply=0; git -C "$WT" apply "$SRC_DIR/patch.diff" || res_apply=1
tests=$(cd "$WT" && PYTHONPATH="$WT" /venv/bin/python -m pytest -q -p no:cacheprovider --timeout=900 2>&1 | tail -1)
SRC="$WT" PYTHONPATH="$WT" timeout 600 /venv/bin/python "$SRC_DIR/demo.py" >/tmp/cs-demo-with.txt 2>&1; with=$?
git -C "$WT" checkout -q -- .
SRC="$WT" PYTHONPATH="$WT" timeout 600 /venv/bin/python "$SRC_DIR/demo.py" >/tmp/cs-demo-without.txt 2>&1; without=$?
git -C /repo worktree remove --force "$WT"
echo "$ID/$X apply=$res_apply tests='$tests' demo_with=$with demo_without=$without"
case "$tests" in *"62 passed"*) t_ok=1;; *) t_ok=0;; esac
if [ $res_apply = 0 ] && [ $t_ok = 1 ] && [ $with = 1 ] && [ $without = 0 ]; then
  D="/verif/seeded/$ID-$X"; mkdir -p "$D"
  cp "$SRC_DIR/patch.diff" "$SRC_DIR/demo.py" "$D/"
  /venv/bin/python - "$SRC_DIR/meta.json" "$D/meta.json" "$tests" <<'PY'
import json,sys
m=json.load(open(sys.argv[1]))
m["confirmed"]={"ran":["git apply patch.diff in a scratch worktree of /repo HEAD","pytest (62 tests): "+sys.argv[3],"demo.py with the change: exit 1","demo.py without the change: exit 0"]}
json.dump(m,open(sys.argv[2],"w"),indent=1)
PY
  echo "CONFIRMED -> $D"
else
  echo "NOT CONFIRMED"; tail -5 /tmp/cs-demo-with.txt
fi
