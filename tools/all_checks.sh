#!/bin/sh
# tools/all_checks.sh [tier] : every registered check once on the current tree (rewrites evidence/)
cd "$(dirname "$0")/.."
T=${1:-quick}
for c in C01 C02 C03 C04 C05 C06 C07 C08 C09 C10 C11 C12 C13 C14 C15 C16 C17 C18 C19 C20; do
  s=$(date +%s); out=$(./check $c --tier $T 2>&1); rc=$?
  echo "$c rc=$rc $(( $(date +%s) - s ))s $(echo "$out" | grep -c KNOWN-FINDING) known; $(echo "$out" | grep -E 'VIOLATION|INTERNAL' | head -2 | cut -c1-150)"
done
