#!/bin/sh
# tools/process_round.sh <letter> : confirm every /tmp/seeded/<ID>/<letter> not yet filed, then run it against its property's check
X="$1"; cd "$(dirname "$0")/.."
for d in /tmp/seeded/C*/$X; do
  [ -f "$d/patch.diff" ] || continue
  id=$(basename $(dirname "$d"))
  if [ ! -d "seeded/$id-$X" ]; then
    c=$(tools/confirm_seed.sh $id $X 2>&1 | grep -E "^C[0-9]+/" | cut -c1-95)
    echo "confirm $c"
  fi
  [ -d "seeded/$id-$X" ] || continue
  r=$(tools/try_seed.sh $id-$X $id 2>&1 | grep -E "VIOLATION|-> (ok|FAIL)|INTERNAL|REPO NOT" | grep -v KNOWN | tr '\n' ' ' | cut -c1-95)
  echo "$id-$X: $r"
done
