#!/bin/sh
# tools/try_seed.sh <seed dir name e.g. C18-a> <check id...> : apply the seeded patch to /repo, run the checks, undo.
S="$1"; shift
git -C /repo apply "/verif/seeded/$S/patch.diff" || exit 2
for c in "$@"; do timeout 2400 /verif/check "$c" 2>&1 | grep -E "VIOLATION|KNOWN-FINDING|INTERNAL|-> (ok|FAIL)" | cut -c1-300; done
git -C /repo checkout -- .
git -C /repo status --short | grep -v '^??' && echo "REPO NOT CLEAN"
