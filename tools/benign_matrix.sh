#!/bin/sh
# tools/benign_matrix.sh [letter] : every behaviour-preserving rewrite under /verif/benign against every check whose anchored files it touches.
X="${1:-a}"; cd "$(dirname "$0")/.."
for d in benign/C*-$X; do
  id=$(basename $d | cut -d- -f1)
  checks=$(python3 - "$d/patch.diff" <<'PY'
import json,re,sys
files=set(re.findall(r'^\+\+\+ b/(\S+)', open(sys.argv[1]).read(), re.M))
out=[]
for l in open('/verif/properties.jsonl'):
    p=json.loads(l)
    if files & set(p['anchors']['files']): out.append(p['id'])
print(" ".join(out))
PY
)
  echo "== $id-$X -> $checks"
  tools/try_benign.sh $id $X $checks 2>&1 | sed 's/tier=quick.*wall/wall/' | cut -c1-220
done
