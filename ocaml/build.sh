#!/bin/sh
# builds /verif/ocaml/driver from the extracted model.ml
set -e
cd "$(dirname "$0")"
ocamlfind ocamlopt -w -a -O2 -rectypes -thread -package coq-core.kernel -linkpkg model.mli model.ml driver.ml -o driver 2>/dev/null \
 || ocamlfind ocamlopt -w -a -rectypes -thread -package coq-core.kernel -linkpkg model.mli model.ml driver.ml -o driver
