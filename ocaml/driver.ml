(* Correspondence driver: reads lines "<id> <sexpr>", prints one sexpr per line.
   sexpr ::= int | '(' sexpr* ')'.  Z stays the extracted inductive; conversions below. *)
open Model

let rec pos_of_int (n : int) : positive =
  if n = 1 then XH
  else if n land 1 = 0 then XO (pos_of_int (n lsr 1))
  else XI (pos_of_int (n lsr 1))

(* arbitrary precision through decimal strings is not needed: every integer on the
   wire fits in 62 bits except float mantissas (53 bits) - fine *)
let z_of_int (n : int) : z =
  if n = 0 then Z0 else if n > 0 then Zpos (pos_of_int n) else Zneg (pos_of_int (- n))

let rec int_of_pos (p : positive) : int =
  match p with XH -> 1 | XO q -> 2 * int_of_pos q | XI q -> 2 * int_of_pos q + 1
let int_of_z (x : z) : int =
  match x with Z0 -> 0 | Zpos p -> int_of_pos p | Zneg p -> - (int_of_pos p)

(* big integers: print via string arithmetic when they exceed 62 bits *)
let rec pos_bits (p : positive) : int = match p with XH -> 1 | XO q | XI q -> 1 + pos_bits q
let rec dec_of_pos (p : positive) : string =
  (* schoolbook doubling on decimal digit arrays *)
  let dbl (s : Bytes.t) (carry : int) : Bytes.t =
    let n = Bytes.length s in
    let out = Bytes.make (n + 1) '0' in
    let c = ref carry in
    for i = n - 1 downto 0 do
      let d = (Char.code (Bytes.get s i) - 48) * 2 + !c in
      Bytes.set out (i + 1) (Char.chr (48 + d mod 10));
      c := d / 10
    done;
    Bytes.set out 0 (Char.chr (48 + !c));
    if Bytes.get out 0 = '0' then Bytes.sub out 1 n else out in
  let rec go p = match p with
    | XH -> Bytes.of_string "1"
    | XO q -> dbl (go q) 0
    | XI q -> dbl (go q) 1 in
  Bytes.to_string (go p)

let string_of_z (x : z) : string =
  match x with
  | Z0 -> "0"
  | Zpos p -> if pos_bits p <= 61 then string_of_int (int_of_pos p) else dec_of_pos p
  | Zneg p -> if pos_bits p <= 61 then string_of_int (- (int_of_pos p)) else "-" ^ dec_of_pos p

let rec print_val (b : Buffer.t) (v : val0) : unit =
  match v with
  | VI x -> Buffer.add_string b (string_of_z x)
  | VL l ->
    Buffer.add_char b '(';
    List.iteri (fun i x -> if i > 0 then Buffer.add_char b ' '; print_val b x) l;
    Buffer.add_char b ')'

(* parser *)
let parse (s : string) (start : int) : val0 =
  let n = String.length s in
  let pos = ref start in
  let rec skip () = while !pos < n && s.[!pos] = ' ' do incr pos done
  and value () : val0 =
    skip ();
    if !pos >= n then failwith "eof"
    else if s.[!pos] = '(' then begin
      incr pos;
      let items = ref [] in
      skip ();
      while !pos < n && s.[!pos] <> ')' do
        items := value () :: !items; skip ()
      done;
      incr pos;
      VL (List.rev !items)
    end else begin
      let st = !pos in
      if s.[!pos] = '-' then incr pos;
      while !pos < n && s.[!pos] >= '0' && s.[!pos] <= '9' do incr pos done;
      VI (z_of_int (int_of_string (String.sub s st (!pos - st))))
    end in
  value ()

let () =
  let b = Buffer.create 65536 in
  (try
    while true do
      let line = input_line stdin in
      let sp = String.index line ' ' in
      let id = int_of_string (String.sub line 0 sp) in
      let arg = parse line (sp + 1) in
      let r = dispatch (z_of_int id) arg in
      Buffer.clear b;
      print_val b r;
      print_string (Buffer.contents b); print_newline ()
    done
  with End_of_file -> ());
  flush stdout
