#!/bin/sh
# One-time build after a fresh restore, offline: Coq development (full .vo), extraction, OCaml driver.
set -e
cd "$(dirname "$0")"
cd coq && coq_makefile -f _CoqProject -o Makefile >/dev/null && timeout 3000 make -j"$(nproc)" >/dev/null && cd ..
cd ocaml && ./build.sh && cd ..
echo "setup ok"
